// Command cl is the ledger explorer for the shared concentrated-liquidity scenario
// (properties C01, C03, C07, C08). See DESIGN.md §5.
package main

import (
	"encoding/json"
	"fmt"
	"os"

	sdk "github.com/cosmos/cosmos-sdk/types"

	"github.com/osmosis-labs/osmosis/v31/zzverif/core"
)

type plan struct {
	Configs []Config
	Alpha   Alphabet
	Depth   int
	SeedDep int // depth from the non-initial seeds
	Seeds   []string
	// SeedsOf restricts the seed states of single configurations (key: Config.String()); absent = Seeds
	SeedsOf map[string][]string
}

func (p *plan) seedsFor(cfg Config) []string {
	if s, ok := p.SeedsOf[cfg.String()]; ok {
		return s
	}
	return p.Seeds
}

func planFor(prop, tier string) plan {
	base := []Config{
		{TickSpacing: 100, SpreadFactor: "0.003", Scaled: true, First0: 1000000, First1: 1000000, RangeUnit: 100},
		{TickSpacing: 1, SpreadFactor: "0", Scaled: false, First0: 1000000, First1: 5000000000, RangeUnit: 50},
		{TickSpacing: 100, SpreadFactor: "0.0001", Scaled: false, First0: 1000000000000, First1: 1000, RangeUnit: 100},
	}
	more := []Config{
		{TickSpacing: 10, SpreadFactor: "0.001", Scaled: true, First0: 1000000, First1: 1000000, RangeUnit: 100},
		{TickSpacing: 1000, SpreadFactor: "0.0005", Scaled: true, First0: 1000000, First1: 5000000000, RangeUnit: 1000},
		{TickSpacing: 1, SpreadFactor: "0.002", Scaled: false, First0: 3, First1: 100000000000000, RangeUnit: 10},
		{TickSpacing: 100, SpreadFactor: "0.005", Scaled: true, First0: 1000000000, First1: 3, RangeUnit: 200},
	}
	creates := func(full bool) []Op {
		ops := []Op{
			{K: "create", A: "A", R: 0, X: 1000000, Y: 1000000},
			{K: "create", A: "B", R: 1, X: 1000000, Y: 1000000},
			{K: "create", A: "B", R: 2, X: 1000000, Y: 0},
			{K: "create", A: "A", R: 3, X: 0, Y: 1000000},
			{K: "create", A: "B", R: 4, X: 1000000000, Y: 3},
			{K: "create", A: "A", R: 5, X: 1, Y: 1},
			{K: "create", A: "B", R: 5, X: 1000000, Y: 1000000},
		}
		if full {
			ops = append(ops,
				Op{K: "create", A: "B", R: 0, X: 1000000, Y: 1000000},
				Op{K: "create", A: "A", R: 4, X: 1, Y: 1},
				Op{K: "create", A: "A", R: 2, X: 1000000, Y: 1000000},
				Op{K: "create", A: "B", R: 3, X: 1000000, Y: 1000000},
				Op{K: "create", A: "B", R: 5, X: 0, Y: 999},
			)
		}
		return ops
	}
	p := plan{Configs: base, Seeds: []string{"init", "empty", "overlap", "gap", "ontick", "inccross", "netzero"}}
	quick := tier != "thorough"
	switch prop {
	case "C07", "C01":
		p.Alpha = Alphabet{Creates: creates(!quick), Adds: [][2]int64{{1000, 1000}}, Withdraws: [][2]int64{{1, 3}, {1, 1}},
			SwapIn: []int64{1, 999, 400000, 30000000}, SwapOut: []int64{1, 250000}, Ticks: []int{0}, CrossSwaps: true, Match: true}
		if prop == "C01" {
			p.Alpha.Claims = true
			p.Alpha.Incentive = true
			p.Alpha.Ticks = []int{0, 2}
		}
		if prop == "C07" {
			// a pool opened below price 1 on a tick that is NOT a multiple of the spacing (tick -463, spacing 100): the
			// stored current tick is the price's tick rounded DOWN to the spacing, and ranges 1/2/5 have boundaries on the
			// two neighbouring multiples
			p.Configs = append(p.Configs, Config{TickSpacing: 100, SpreadFactor: "0.001", Scaled: true, First0: 10000000000, First1: 9999537500, RangeUnit: 100})
			// 18-decimal tokens (every amount of the scenario x 1e18; the walker-synthesised crossing swaps are carried in
			// real base units): C07's oracle is exact bookkeeping and does not depend on the amount scale
			p.Configs = append(p.Configs, Config{TickSpacing: 100, SpreadFactor: "0.003", Scaled: true, First0: 1000000, First1: 1000000, RangeUnit: 100, Exp10: 18})
		}
		if quick {
			p.Depth, p.SeedDep = 3, 2
			if prop == "C01" {
				// the exit-in-every-order probe costs ~100 messages per state: two configurations, narrower alphabet
				p.Configs = p.Configs[:2]
				p.Configs[1].SpreadFactor = "0.0005"
				p.Alpha.SwapIn = []int64{999, 400000, 30000000}
				p.Alpha.SwapOut = []int64{250000}
				// keep the non-dust create whose upper boundary is the current tick (range 5): fees accruing while the
				// tick sits on a position's upper boundary are the case the spread-growth attribution can get wrong
				p.Alpha.Creates = append(append([]Op{}, p.Alpha.Creates[:5]...), p.Alpha.Creates[6])
			}
		} else {
			p.Depth, p.SeedDep = 4, 3
			p.Configs = append(p.Configs, more...)
			p.Alpha.Transfer = true
		}
	case "C08":
		p.Alpha = Alphabet{Creates: creates(!quick), Adds: [][2]int64{{1000, 1000}}, Withdraws: [][2]int64{{1, 3}, {1, 1}},
			SwapIn: []int64{999, 400000, 30000000}, SwapOut: []int64{250000}, Claims: true, Transfer: true, Incentive: true, Ticks: []int{0, 1, 2}, CrossSwaps: true, Match: true}
		p.Seeds = []string{"init", "twins", "gap", "overlap", "ontick", "inccross", "young", "netzero"}
		if quick {
			p.Depth, p.SeedDep = 3, 2
			p.Configs = []Config{p.Configs[0], {TickSpacing: 1, SpreadFactor: "0.002", Scaled: false, First0: 1000000, First1: 5000000000, RangeUnit: 50}}
		} else {
			p.Depth, p.SeedDep = 4, 3
			p.Configs = append(p.Configs, more...)
		}
	case "C03":
		// LP/swap sub-alphabet only: it generates the pool states; the swaps under test are the probe
		// set evaluated in every state (oracle_c03.go).
		p.Alpha = Alphabet{Creates: creates(!quick), Withdraws: [][2]int64{{1, 1}}, SwapIn: []int64{999, 400000, 30000000}, SwapOut: []int64{250000}}
		p.Seeds = []string{"init", "overlap", "gap"}
		if quick {
			p.Depth, p.SeedDep = 2, 2
			p.Configs = append(p.Configs, Config{TickSpacing: 1, SpreadFactor: "0.005", Scaled: true, First0: 1000000, First1: 1000000, RangeUnit: 10})
			// 18-decimal tokens (reserves of 1e24 / 5e27 base units): the Dec roundings of the spread charge are worth more
			// than the whole-unit round-ups that hide them at 6-decimal scale
			second := Config{TickSpacing: 1, SpreadFactor: "0.0005", Scaled: false, First0: 1000000, First1: 5000000000, RangeUnit: 50, Exp10: 18}
			p.Configs = append(p.Configs,
				Config{TickSpacing: 100, SpreadFactor: "0.003", Scaled: true, First0: 1000000, First1: 1000000, RangeUnit: 100, Exp10: 18},
				second)
			// cost: the second one is explored from two of the three seed states
			p.SeedsOf = map[string][]string{second.String(): {"init", "overlap"}}
		} else {
			p.Depth, p.SeedDep = 3, 2
			p.Configs = nil
			for _, ts := range []uint64{1, 100} {
				for _, sf := range []string{"0", "0.0001", "0.0005", "0.001", "0.002", "0.003", "0.005"} {
					u := int64(100)
					if ts == 1 {
						u = 20
					}
					p.Configs = append(p.Configs,
						Config{TickSpacing: ts, SpreadFactor: sf, Scaled: sf != "0.001", First0: 1000000, First1: 1000000, RangeUnit: u},
						Config{TickSpacing: ts, SpreadFactor: sf, Scaled: sf == "0.001", First0: 1000000, First1: 5000000000, RangeUnit: u},
						Config{TickSpacing: ts, SpreadFactor: sf, Scaled: true, First0: 1000000000000, First1: 1000, RangeUnit: u})
				}
			}
			// 18-decimal tokens: every non-zero authorised spread factor, both accumulator-scaling sides, the three price
			// regimes (reserves 1e24 .. 1e30 base units), both tick spacings
			for i, sf := range []string{"0.0001", "0.0005", "0.001", "0.002", "0.003", "0.005"} {
				ts, u := uint64(100), int64(100)
				if i%2 == 1 {
					ts, u = 1, 20
				}
				firsts := [][2]int64{{1000000, 1000000}, {1000000, 5000000000}, {1000000000000, 1000}}
				f := firsts[i%3]
				p.Configs = append(p.Configs, Config{TickSpacing: ts, SpreadFactor: sf, Scaled: i%2 == 0, First0: f[0], First1: f[1], RangeUnit: u, Exp10: 18})
			}
			p.Configs = append(p.Configs,
				Config{TickSpacing: 100, SpreadFactor: "0.003", Scaled: false, First0: 1000000, First1: 5000000000, RangeUnit: 100, Exp10: 18},
				Config{TickSpacing: 1, SpreadFactor: "0", Scaled: true, First0: 1000000, First1: 1000000, RangeUnit: 20, Exp10: 18})
		}
	default:
		fmt.Fprintln(os.Stderr, "cl: unknown property", prop)
		os.Exit(2)
	}
	return p
}

// seedState drives the world from genesis to a named non-initial state through the same Apply
// path as the explorer, so seeds are real reachable states.
func seedOps(name string, cfg Config) []Op {
	first := Op{K: "create", A: "A", R: 0, X: cfg.First0, Y: cfg.First1}
	switch name {
	case "empty":
		return nil
	case "init":
		return []Op{first}
	case "overlap":
		return []Op{first, {K: "create", A: "B", R: 1, X: cfg.First0, Y: cfg.First1}, {K: "create", A: "B", R: 4, X: cfg.First0, Y: cfg.First1},
			{K: "incentive", X: 1000000, Y: 10, D: 0},
			{K: "swapin", D: 0, X: cfg.First0 / 3}, {K: "tick", D: 0}, {K: "swapin", D: 1, X: cfg.First1 / 2}}
	case "inccross":
		// a short-lived incentive that has not emitted anything yet, and a second position whose range starts
		// one bucket above the price: advancing time and then crossing into it is two operations away
		return []Op{first, {K: "create", A: "B", R: 2, X: cfg.First0, Y: 0}, {K: "incentive", X: 3700, Y: 1, D: 0}}
	case "ontick":
		// deep liquidity, then a fee-paying swap so small that the price stays inside the initial tick: the next
		// position created with a boundary exactly on the current tick meets non-zero accumulated growth
		// (and an incentive whose remainder is almost used up by an emission that has been persisted)
		return []Op{{K: "create", A: "A", R: 0, X: 1000 * cfg.First0, Y: 1000 * cfg.First1}, {K: "incentive", X: 3700, Y: 1, D: 0},
			{K: "tick", D: 2}, {K: "swapin", D: 1, X: cfg.First1 * 3}, {K: "tick", D: 1}}
	case "twins":
		// two identical positions born in the same block by different owners, a third with the same range
		// and more liquidity, one never-in-range position, and one incentive per uptime
		return []Op{first, {K: "create", A: "B", R: 0, X: cfg.First0, Y: cfg.First1}, {K: "create", A: "B", R: 0, X: 3 * cfg.First0, Y: 3 * cfg.First1},
			{K: "create", A: "A", R: 2, X: cfg.First0, Y: 0},
			{K: "incentive", X: 1000000, Y: 10, D: 0}, {K: "incentive", X: 3700, Y: 1, D: 1}, {K: "incentive", X: 500000, Y: 3, D: 2},
			{K: "swapin", D: 0, X: cfg.First0 / 50}, {K: "tick", D: 1}}
	case "netzero":
		// two positions meet at the tick the price starts on ([c0-2u, c0) and [c0, c0+u)) and hold EQUAL liquidity, so
		// that tick is in use with net liquidity zero; fees and incentives have accrued on the upper side; the
		// alphabet's walker-synthesised zero-for-one swaps cross the tick next
		return []Op{first, {K: "create", A: "B", R: 1, X: cfg.First0, Y: cfg.First1}, {K: "create", A: "A", R: 5, X: cfg.First0, Y: cfg.First1},
			{K: "equalize", P: 1, Q: 2},
			{K: "incentive", X: 1000000, Y: 10, D: 0},
			{K: "swapin", D: 1, X: cfg.First1 / 50}, {K: "tick", D: 1}}
	case "young":
		// incentives on all three uptimes are running and other liquidity is active; one more position is one second
		// old: a collect or withdrawal of it now forfeits what it accrued under BOTH longer uptimes in a single call
		return []Op{first, {K: "create", A: "B", R: 0, X: 3 * cfg.First0, Y: 3 * cfg.First1},
			{K: "incentive", X: 1000000, Y: 10, D: 0}, {K: "incentive", X: 600000, Y: 7, D: 1}, {K: "incentive", X: 500000, Y: 3, D: 2},
			{K: "tick", D: 1},
			{K: "create", A: "A", R: 1, X: cfg.First0, Y: cfg.First1},
			{K: "tick", D: 0}}
	case "gap":
		return []Op{first, {K: "create", A: "B", R: 2, X: cfg.First0, Y: 0}, {K: "create", A: "B", R: 3, X: 0, Y: cfg.First1},
			{K: "incentive", X: 1000000, Y: 10, D: 0}, {K: "withdraw", P: 0, X: 1, Y: 1}, {K: "tick", D: 1}}
	}
	panic("unknown seed " + name)
}

func buildSeed(w *World, name string) (sdk.Context, *Ledger, error) {
	ctx, _ := w.Env.Ctx.CacheContext()
	l := &Ledger{}
	if trackRewards {
		l.R = newRewards()
	}
	var ferr error
	for _, op := range seedOps(name, w.Cfg) {
		var out string
		// swaps in a seed may be refused in extreme price regimes (documented refusals); scale the amount
		// deterministically until one is accepted so that every configuration gets its seed
		tries := []int64{1}
		if op.K == "swapin" || op.K == "swapout" {
			tries = []int64{1, 100, 10000, 1000000}
		}
		for _, m := range tries {
			o := op
			o.X = op.X * m
			ctx, out = w.Apply(ctx, l, o, func(a, s, d string) { ferr = fmt.Errorf("%s: %s", a, d) })
			if out == "ok" {
				break
			}
		}
		if out != "ok" {
			return ctx, l, fmt.Errorf("seed %s: op %s: %s", name, op, out)
		}
	}
	return ctx, l, ferr
}

func checker(w *World, prop string, r *core.Result) func(ctx sdk.Context, l *Ledger, fail func(a, s, d string)) {
	return func(ctx sdk.Context, l *Ledger, fail func(a, s, d string)) {
		switch prop {
		case "C07":
			w.CheckC07(ctx, l, fail, r.Vacuity)
		case "C01":
			w.CheckC07(ctx, l, func(a, s, d string) {}, r.Vacuity) // counters only; C07 reports its own violations
			w.CheckC01(ctx, l, fail, r.Vacuity, r)
		case "C03":
			w.CheckC07(ctx, l, func(a, s, d string) {}, r.Vacuity)
			w.CheckC03(ctx, l, fail, r)
		case "C08":
			w.CheckC07(ctx, l, func(a, s, d string) {}, r.Vacuity)
			w.CheckC08(ctx, l, fail, r)
		}
	}
}

var trackRewards bool

type replayCfg struct {
	Config Config `json:"config"`
	Seed   string `json:"seed_state"`
	Ops    []Op   `json:"ops"`
}

func runReplay(f *core.Flags, r *core.Result) {
	var rp replayCfg
	core.ReadReplay(f.Replay, &rp)
	w := NewWorld(rp.Config)
	defer w.Env.Close()
	ctx, l, err := buildSeed(w, rp.Seed)
	if err != nil {
		fmt.Fprintln(os.Stderr, "harness: seed failed during replay:", err)
		os.Exit(2)
	}
	chk := checker(w, f.Prop, r)
	fail := func(a, s, d string) {
		r.AddViolation(core.Violation{Property: f.Prop, Assertion: a, Signature: s, Detail: d, Replay: rp})
	}
	chk(ctx, l, fail)
	for i, op := range rp.Ops {
		var out string
		ctx, out = w.Apply(ctx, l, op, fail)
		fmt.Printf("step %d %s -> %s\n", i, op, out)
		pp := w.pool(ctx)
		fmt.Printf("   pool: tick=%d sqrtP=%s liq=%s bal=%s spread=%s inc=%s positions=%d\n", pp.GetCurrentTick(), pp.GetCurrentSqrtPrice(), pp.GetLiquidity(),
			bal(w, ctx, pp.GetAddress()), bal(w, ctx, pp.GetSpreadRewardsAddress()), bal(w, ctx, pp.GetIncentivesAddress()), len(l.Pos))
		chk(ctx, l, fail)
		r.Transitions++
		r.States++
	}
}

func main() {
	f := core.ParseFlags()
	r := core.NewResult(f.Prop)
	trackRewards = f.Prop == "C08"
	r.Extra["max_dust_pool"] = float64(0)
	if f.Replay != "" {
		runReplay(f, r)
		core.Finish(f, r)
		return
	}
	pl := planFor(f.Prop, f.Tier)
	// development aids: VERIF_CL_UNIT_SCALE_ONLY=1 drops the configurations that have an amount scale (Exp10 != 0), to
	// compare counts with evidence that predates them; VERIF_CL_AMOUNT_SCALE_ONLY=1 keeps only those
	if u, a := os.Getenv("VERIF_CL_UNIT_SCALE_ONLY") != "", os.Getenv("VERIF_CL_AMOUNT_SCALE_ONLY") != ""; u || a {
		var keep []Config
		for _, c := range pl.Configs {
			if (c.Exp10 == 0) == u {
				keep = append(keep, c)
			}
		}
		pl.Configs = keep
		if u {
			pl.SeedsOf = nil
		}
	}
	allSeen := core.NewSeen()
	var cfgNames []string
	for _, cfg := range pl.Configs {
		w := NewWorld(cfg)
		cfgNames = append(cfgNames, cfg.String())
		sc := &core.Scenario[Op, *Ledger]{
			App: w.App, Stores: stores, Config: cfg,
			Enabled: w.Enabled(&pl.Alpha),
			Apply:   w.Apply,
			Check:   checker(w, f.Prop, r),
		}
		for _, seed := range pl.seedsFor(cfg) {
			ctx, l, err := buildSeed(w, seed)
			if err != nil {
				// a seed that cannot be built in this configuration is skipped, visibly
				r.Rejected["seed-unbuildable:"+seed+" in "+cfg.String()+": "+err.Error()]++
				continue
			}
			ex := core.NewExplorer(sc, f, r)
			d := pl.SeedDep
			if seed == "init" || seed == "empty" {
				d = pl.Depth
			}
			t0, s0 := r.Transitions, r.States
			ex.Run(seed, ctx, l, d)
			if os.Getenv("VERIF_DEBUG") != "" {
				fmt.Fprintf(os.Stderr, "cost: %s seed=%s transitions=%d states=%d\n", cfg, seed, r.Transitions-t0, r.States-s0)
			}
			for k := range ex.Seen {
				var h [32]byte
				copy(h[:], k[:])
				// separate configurations never share states: mix the config in
				h[31] ^= byte(len(cfgNames))
				allSeen.Add(h)
			}
		}
		w.Env.Close()
	}
	allSeen.Dump(f.HashOut)
	r.Extra["configurations"] = cfgNames
	r.Extra["alphabet"] = describeAlphabet(&pl.Alpha)
	r.Extra["seeds"] = pl.Seeds
	if len(pl.SeedsOf) > 0 {
		r.Extra["seeds_of_configuration"] = pl.SeedsOf
	}
	r.Outcomes = int64(len(r.Rejected) + 1)
	core.Finish(f, r)
}

func describeAlphabet(a *Alphabet) string {
	bz, _ := json.Marshal(a)
	return string(bz)
}
