package main

import (
	"math/big"
	"sort"

	"github.com/osmosis-labs/osmosis/osmomath"
	clmath "github.com/osmosis-labs/osmosis/v31/x/concentrated-liquidity/math"
)

// The exact reference walker: the piecewise constant-liquidity curve in big.Rat.
// Inputs are only the ledger's positions, the pool's stored sqrt price, the spread factor and
// the sqrt prices the implementation assigns to ticks (TickToSqrtPrice; decided separately by C14).

var (
	ten18 = new(big.Int).Exp(big.NewInt(10), big.NewInt(18), nil)
	ten36 = new(big.Int).Exp(big.NewInt(10), big.NewInt(36), nil)
)

func ratDec(d osmomath.Dec) *big.Rat       { return new(big.Rat).SetFrac(d.BigInt(), ten18) }
func ratBigDec(d osmomath.BigDec) *big.Rat { return new(big.Rat).SetFrac(d.BigInt(), ten36) }
func ratInt(i int64) *big.Rat              { return new(big.Rat).SetInt64(i) }

func floorRat(r *big.Rat) *big.Int {
	q := new(big.Int)
	m := new(big.Int)
	q.DivMod(r.Num(), r.Denom(), m) // Euclidean: floor for positive denominators
	return q
}

func ceilRat(r *big.Rat) *big.Int {
	f := floorRat(r)
	if new(big.Rat).SetInt(f).Cmp(r) < 0 {
		f.Add(f, big.NewInt(1))
	}
	return f
}

type boundary struct {
	tick int64
	s    *big.Rat
}

type curve struct {
	bounds []boundary // ascending by sqrt price
	pos    []curvePos
}

type curvePos struct {
	lo, hi *big.Rat
	liq    *big.Rat
}

var tickSqrtCache = map[int64]*big.Rat{}

func tickSqrt(t int64) *big.Rat {
	if r, ok := tickSqrtCache[t]; ok {
		return r
	}
	sp, err := clmath.TickToSqrtPrice(t)
	if err != nil {
		panic(err)
	}
	r := ratBigDec(sp)
	tickSqrtCache[t] = r
	return r
}

func newCurve(l *Ledger) *curve {
	c := &curve{}
	seen := map[int64]bool{}
	for _, p := range l.Pos {
		lo, hi := tickSqrt(p.Lower), tickSqrt(p.Upper)
		c.pos = append(c.pos, curvePos{lo: lo, hi: hi, liq: ratDec(p.Liq)})
		for _, t := range []int64{p.Lower, p.Upper} {
			if !seen[t] {
				seen[t] = true
				c.bounds = append(c.bounds, boundary{tick: t, s: tickSqrt(t)})
			}
		}
	}
	sort.Slice(c.bounds, func(i, j int) bool { return c.bounds[i].s.Cmp(c.bounds[j].s) < 0 })
	return c
}

// liquidity just below s (for a downward move) or just above s (upward move).
func (c *curve) liq(s *big.Rat, down bool) *big.Rat {
	L := new(big.Rat)
	for _, p := range c.pos {
		if down {
			if p.lo.Cmp(s) < 0 && s.Cmp(p.hi) <= 0 {
				L.Add(L, p.liq)
			}
		} else {
			if p.lo.Cmp(s) <= 0 && s.Cmp(p.hi) < 0 {
				L.Add(L, p.liq)
			}
		}
	}
	return L
}

func (c *curve) next(s *big.Rat, down bool) (*big.Rat, bool) {
	if down {
		for i := len(c.bounds) - 1; i >= 0; i-- {
			if c.bounds[i].s.Cmp(s) < 0 {
				return c.bounds[i].s, true
			}
		}
		return nil, false
	}
	for i := 0; i < len(c.bounds); i++ {
		if c.bounds[i].s.Cmp(s) > 0 {
			return c.bounds[i].s, true
		}
	}
	return nil, false
}

type walkResult struct {
	In        *big.Rat // total charged incl. spread fee
	Out       *big.Rat
	Fee       *big.Rat
	Steps     int
	End       *big.Rat
	Exhausted bool // ran out of liquidity before the specified amount was used up
	// per step: fee and active liquidity (C08's reference)
	StepFee  []*big.Rat
	StepLiq  []*big.Rat
	StepFrom []*big.Rat
	StepTo   []*big.Rat
}

// walk follows the curve. zeroForOne: token0 in, price moves down. exactIn: amt is the total input
// (fee included); otherwise amt is the desired output.
func (c *curve) walk(s0 *big.Rat, zeroForOne, exactIn bool, amt, sf *big.Rat) walkResult {
	one := ratInt(1)
	oneMinus := new(big.Rat).Sub(one, sf)
	res := walkResult{In: new(big.Rat), Out: new(big.Rat), Fee: new(big.Rat)}
	s := new(big.Rat).Set(s0)
	rem := new(big.Rat).Set(amt)
	for rem.Sign() > 0 {
		nb, ok := c.next(s, zeroForOne)
		if !ok {
			res.Exhausted = true
			break
		}
		L := c.liq(s, zeroForOne)
		res.Steps++
		if L.Sign() == 0 {
			s = nb
			continue
		}
		// amounts to reach the boundary
		var inToB, outToB *big.Rat
		invS := new(big.Rat).Inv(s)
		invN := new(big.Rat).Inv(nb)
		if zeroForOne {
			inToB = new(big.Rat).Mul(L, new(big.Rat).Sub(invN, invS)) // token0
			outToB = new(big.Rat).Mul(L, new(big.Rat).Sub(s, nb))     // token1
		} else {
			inToB = new(big.Rat).Mul(L, new(big.Rat).Sub(nb, s))      // token1
			outToB = new(big.Rat).Mul(L, new(big.Rat).Sub(invS, invN)) // token0
		}
		if exactIn {
			net := new(big.Rat).Mul(rem, oneMinus)
			if net.Cmp(inToB) >= 0 {
				gross := new(big.Rat).Quo(inToB, oneMinus)
				fee := new(big.Rat).Sub(gross, inToB)
				res.In.Add(res.In, gross)
				res.Fee.Add(res.Fee, fee)
				res.Out.Add(res.Out, outToB)
				res.StepFee = append(res.StepFee, fee)
				res.StepLiq = append(res.StepLiq, L)
				res.StepFrom = append(res.StepFrom, s)
				res.StepTo = append(res.StepTo, nb)
				rem.Sub(rem, gross)
				s = nb
				continue
			}
			// ends inside the bucket: everything remaining is consumed
			var sn *big.Rat
			if zeroForOne {
				// s' = L s / (L + net s)
				sn = new(big.Rat).Quo(new(big.Rat).Mul(L, s), new(big.Rat).Add(L, new(big.Rat).Mul(net, s)))
				res.Out.Add(res.Out, new(big.Rat).Mul(L, new(big.Rat).Sub(s, sn)))
			} else {
				sn = new(big.Rat).Add(s, new(big.Rat).Quo(net, L))
				res.Out.Add(res.Out, new(big.Rat).Mul(L, new(big.Rat).Sub(invS, new(big.Rat).Inv(sn))))
			}
			fee := new(big.Rat).Sub(rem, net)
			res.In.Add(res.In, rem)
			res.Fee.Add(res.Fee, fee)
			res.StepFee = append(res.StepFee, fee)
			res.StepLiq = append(res.StepLiq, L)
			res.StepFrom = append(res.StepFrom, s)
			res.StepTo = append(res.StepTo, sn)
			rem = new(big.Rat)
			s = sn
			break
		}
		// exact out
		if rem.Cmp(outToB) >= 0 {
			gross := new(big.Rat).Quo(inToB, oneMinus)
			fee := new(big.Rat).Sub(gross, inToB)
			res.In.Add(res.In, gross)
			res.Fee.Add(res.Fee, fee)
			res.Out.Add(res.Out, outToB)
			res.StepFee = append(res.StepFee, fee)
			res.StepLiq = append(res.StepLiq, L)
			res.StepFrom = append(res.StepFrom, s)
			res.StepTo = append(res.StepTo, nb)
			rem.Sub(rem, outToB)
			s = nb
			continue
		}
		var sn, netIn *big.Rat
		if zeroForOne {
			sn = new(big.Rat).Sub(s, new(big.Rat).Quo(rem, L))
			netIn = new(big.Rat).Mul(L, new(big.Rat).Sub(new(big.Rat).Inv(sn), invS))
		} else {
			// out token0: 1/s' = 1/s - rem/L
			inv := new(big.Rat).Sub(invS, new(big.Rat).Quo(rem, L))
			sn = new(big.Rat).Inv(inv)
			netIn = new(big.Rat).Mul(L, new(big.Rat).Sub(sn, s))
		}
		gross := new(big.Rat).Quo(netIn, oneMinus)
		fee := new(big.Rat).Sub(gross, netIn)
		res.In.Add(res.In, gross)
		res.Fee.Add(res.Fee, fee)
		res.Out.Add(res.Out, rem)
		res.StepFee = append(res.StepFee, fee)
		res.StepLiq = append(res.StepLiq, L)
		res.StepFrom = append(res.StepFrom, s)
		res.StepTo = append(res.StepTo, sn)
		rem = new(big.Rat)
		s = sn
		break
	}
	res.End = s
	return res
}

// toNextTick returns the ideal (input incl. fee, output) needed to move the price from s exactly
// to the next initialised tick in the given direction; ok=false when there is none or no liquidity.
func (c *curve) toNextTick(s *big.Rat, zeroForOne bool, sf *big.Rat) (in, out *big.Rat, ok bool) {
	nb, has := c.next(s, zeroForOne)
	if !has {
		return nil, nil, false
	}
	L := c.liq(s, zeroForOne)
	if L.Sign() == 0 {
		return nil, nil, false
	}
	one := ratInt(1)
	invS, invN := new(big.Rat).Inv(s), new(big.Rat).Inv(nb)
	if zeroForOne {
		in = new(big.Rat).Mul(L, new(big.Rat).Sub(invN, invS))
		out = new(big.Rat).Mul(L, new(big.Rat).Sub(s, nb))
	} else {
		in = new(big.Rat).Mul(L, new(big.Rat).Sub(nb, s))
		out = new(big.Rat).Mul(L, new(big.Rat).Sub(invS, invN))
	}
	in.Quo(in, new(big.Rat).Sub(one, sf))
	return in, out, true
}
