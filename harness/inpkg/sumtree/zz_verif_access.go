package sumtree

// Read-only accessor grafted into package sumtree by the verification harness (C16).
// It adds exported views only; it changes no behaviour of the package.

import (
	"encoding/binary"

	"github.com/cosmos/gogoproto/proto"

	"github.com/osmosis-labs/osmosis/osmomath"

	store "cosmossdk.io/store"
)

// VerifAttach returns a Tree handle over an existing store WITHOUT NewTree's
// "insert the empty key when it is missing" initialisation, so that re-attaching to a copied
// store never performs a hidden write.
func VerifAttach(s store.KVStore, m uint8) Tree { return Tree{s, m} }

// VerifEntry is one raw store entry decoded with the package's own key layout.
type VerifEntry struct {
	RawKey   []byte
	RawValue []byte
	Level    uint16
	Key      []byte
	Children []VerifChild // level >= 1: the node's (index, accumulation) list; level 0: one element = the leaf
	BadKey   bool         // raw key does not carry the node prefix
}

type VerifChild struct {
	Index []byte
	Acc   osmomath.Int
	Nil   bool // child pointer or accumulation missing in the stored record
}

// VerifDump decodes every entry of the tree's store in store order.
func (t Tree) VerifDump() []VerifEntry {
	var out []VerifEntry
	it := t.store.Iterator(nil, nil)
	defer it.Close()
	for ; it.Valid(); it.Next() {
		k := append([]byte(nil), it.Key()...)
		v := it.Value()
		e := VerifEntry{RawKey: k, RawValue: append([]byte(nil), v...)}
		if len(k) < nodeKeyPrefixLen+2 || string(k[:nodeKeyPrefixLen]) != string(nodeKeyPrefix) {
			e.BadKey = true
			out = append(out, e)
			continue
		}
		e.Level = binary.BigEndian.Uint16(k[nodeKeyPrefixLen : nodeKeyPrefixLen+2])
		e.Key = k[nodeKeyPrefixLen+2:]
		if e.Level == 0 {
			var leaf Leaf
			if err := proto.Unmarshal(v, &leaf); err != nil {
				panic(err)
			}
			e.Children = []VerifChild{verifChild(leaf.Leaf)}
		} else {
			var node Node
			if err := proto.Unmarshal(v, &node); err != nil {
				panic(err)
			}
			for _, c := range node.Children {
				e.Children = append(e.Children, verifChild(c))
			}
		}
		out = append(out, e)
	}
	return out
}

func verifChild(c *Child) VerifChild {
	if c == nil || c.Accumulation.IsNil() {
		return VerifChild{Nil: true}
	}
	return VerifChild{Index: append([]byte(nil), c.Index...), Acc: c.Accumulation}
}

// VerifRoot exposes what the package itself considers the root (level, key); ok=false if none.
func (t Tree) VerifRoot() (level uint16, key []byte, ok bool) {
	r := t.root()
	if r == nil {
		return 0, nil, false
	}
	return r.level, append([]byte(nil), r.key...), true
}
