package poolmanager

// Grafted into x/poolmanager by the verification harness (build overlay only; never part of the repository).
// VerifDropCaches empties the keeper's process-local caches IN PLACE, so that every copy of the keeper that shares
// them sees what a freshly started process sees: nothing memoised, everything re-read from the store on demand
// (the share-agreement and alloyed-pool maps are refilled by the module's own BeginBlock when they are empty).
// Keeper.ResetCaches is not suitable for this: it swaps the pool-module map of ONE keeper copy for a new one, so the
// message servers and other modules holding copies would keep the old map.
func (k *Keeper) VerifDropCaches() {
	k.cachedPoolModules.Range(func(key, _ any) bool {
		k.cachedPoolModules.Delete(key)
		return true
	})
	clear(k.cachedTakerFeeShareAgreementMap)
	clear(k.cachedRegisteredAlloyPoolByAlloyDenomMap)
}
