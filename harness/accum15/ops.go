package main

// Alphabet of C15 and its execution on the real accumulator.

import (
	"fmt"
	"math/big"
	"sort"
	"strings"

	dbm "github.com/cosmos/cosmos-db"

	"cosmossdk.io/store/dbadapter"
	sdk "github.com/cosmos/cosmos-sdk/types"

	"github.com/osmosis-labs/osmosis/osmomath"
	"github.com/osmosis-labs/osmosis/osmoutils/accum"
)

const accName = "acc"

// reward denominations (the SDK refuses denominations shorter than three characters); written "x" / "y"
// in the symbol table
var denomOf = map[string]string{"x": "denomx", "y": "denomy"}

// Sym is one symbol of the alphabet. Shares: decimal string, or "all" (all shares held), "all+1".
// Interval: "" (plain form), "cur" (…IntervalAccumulation form with the current value),
// "cur-1x" (current value minus 1 x, enabled when the accumulator holds >= 1 x), "zero" (empty coins).
type Sym struct {
	K        string `json:"k"` // grow new add rem upd claim del unclaimed setiv
	Name     string `json:"n,omitempty"`
	Shares   string `json:"s,omitempty"`
	Coins    string `json:"c,omitempty"` // "0.5x" | "1x,2y" | "-1x"
	Interval string `json:"iv,omitempty"`
	Illegal  string `json:"illegal,omitempty"` // why the call must fail (probes only)
}

func (s Sym) String() string {
	iv := ""
	if s.Interval != "" {
		iv = "@" + s.Interval
	}
	switch s.K {
	case "grow":
		return "AddToAccumulator(" + s.Coins + ")"
	case "new":
		return fmt.Sprintf("NewPosition%s(%s,%s)", iv, s.Name, s.Shares)
	case "add":
		return fmt.Sprintf("AddToPosition%s(%s,%s)", iv, s.Name, s.Shares)
	case "rem":
		return fmt.Sprintf("RemoveFromPosition%s(%s,%s)", iv, s.Name, s.Shares)
	case "upd":
		return fmt.Sprintf("UpdatePosition%s(%s,%s)", iv, s.Name, s.Shares)
	case "claim":
		return "ClaimRewards(" + s.Name + ")"
	case "del":
		return "DeletePosition(" + s.Name + ")"
	case "unclaimed":
		return fmt.Sprintf("AddToUnclaimedRewards(%s,%s)", s.Name, s.Coins)
	case "setiv":
		return fmt.Sprintf("SetPositionIntervalAccumulation(%s,%s)", s.Name, s.Interval)
	}
	return s.K
}

func symsString(p []Sym) string {
	s := make([]string, len(p))
	for i, x := range p {
		s[i] = x.String()
	}
	return strings.Join(s, "; ")
}

// ---------------------------------------------------------------- conversions

var e18 = new(big.Int).Exp(big.NewInt(10), big.NewInt(18), nil)

func decToRat(d osmomath.Dec) *big.Rat {
	if d.IsNil() {
		return new(big.Rat)
	}
	return new(big.Rat).SetFrac(d.BigInt(), e18)
}

func ratToDec(r *big.Rat) osmomath.Dec {
	x := new(big.Rat).Mul(r, new(big.Rat).SetInt(e18))
	if !x.IsInt() {
		panic("model value with more than 18 decimals handed to the implementation: " + r.RatString())
	}
	return osmomath.NewDecFromBigIntWithPrec(new(big.Int).Set(x.Num()), 18)
}

func mustRat(s string) *big.Rat {
	r, ok := new(big.Rat).SetString(s)
	if !ok {
		panic("bad number " + s)
	}
	return r
}

// parseCoins: "0.5x", "1x,2y", "-1x", "" -> model coins
func parseCoins(s string) Coins {
	c := Coins{}
	if s == "" {
		return c
	}
	for _, part := range strings.Split(s, ",") {
		i := len(part) - 1
		c[denomOf[part[i:]]] = mustRat(part[:i])
	}
	return c
}

// toDecCoins builds sdk.DecCoins; negative amounts are built as raw structs (the constructors refuse
// them), which is what a buggy caller would hand over.
func toDecCoins(c Coins) sdk.DecCoins {
	var ds []string
	for d, v := range c {
		if v.Sign() != 0 {
			ds = append(ds, d)
		}
	}
	sort.Strings(ds)
	out := sdk.DecCoins{}
	for _, d := range ds {
		out = append(out, sdk.DecCoin{Denom: d, Amount: ratToDec(c[d])})
	}
	return out
}

func fromDecCoins(dc sdk.DecCoins) Coins {
	c := Coins{}
	for _, x := range dc {
		c[x.Denom] = new(big.Rat).Add(c.get(x.Denom), decToRat(x.Amount))
	}
	return c
}

func fromCoins(cs sdk.Coins) Coins {
	c := Coins{}
	for _, x := range cs {
		c[x.Denom] = new(big.Rat).SetInt(x.Amount.BigInt())
	}
	return c
}

// ---------------------------------------------------------------- world

type World struct {
	db    *dbm.MemDB
	store dbadapter.Store
	long  *accum.AccumulatorObject // long-lived handle discipline; nil = fresh handle before each op
	// "stale" discipline: a handle fetched after the last growth / deletion; every share-changing, claiming or
	// snapshot call goes through a COPY of it, so the handle's cached total shares are behind the store by all
	// share changes made since (its value per share is current). NewPosition / AddToPosition / RemoveFromPosition
	// re-read the total from the store precisely to tolerate this; growth and DeletePosition, which write the
	// cached total back, go through a fresh handle.
	stale *accum.AccumulatorObject
	disc  string
}

func NewWorld(disc string) *World {
	db := dbm.NewMemDB()
	w := &World{db: db, store: dbadapter.Store{DB: db}, disc: disc}
	if err := accum.MakeAccumulator(w.store, accName); err != nil {
		panic(err)
	}
	if disc == "long" {
		h, err := accum.GetAccumulator(w.store, accName)
		if err != nil {
			panic(err)
		}
		w.long = h
	}
	if disc == "stale" {
		w.refreshStale()
	}
	return w
}

func (w *World) refreshStale() {
	h, err := accum.GetAccumulator(w.store, accName)
	if err != nil {
		panic(err)
	}
	w.stale = h
}

// handle returns the handle the next operation goes through.
func (w *World) handle() *accum.AccumulatorObject {
	if w.long != nil {
		return w.long
	}
	if w.stale != nil {
		c := *w.stale
		return &c
	}
	h, err := accum.GetAccumulator(w.store, accName)
	if err != nil {
		panic(err)
	}
	return h
}

// Image serializes the raw store content.
func (w *World) Image() []byte {
	it, err := w.db.Iterator(nil, nil)
	if err != nil {
		panic(err)
	}
	defer it.Close()
	var out []byte
	for ; it.Valid(); it.Next() {
		k, v := it.Key(), it.Value()
		out = append(out, byte(len(k)>>8), byte(len(k)))
		out = append(out, k...)
		out = append(out, byte(len(v)>>16), byte(len(v)>>8), byte(len(v)))
		out = append(out, v...)
	}
	return out
}

// Copy returns an independent store with the same content and a fresh handle on it (probes).
func (w *World) Copy() *World {
	db := dbm.NewMemDB()
	it, err := w.db.Iterator(nil, nil)
	if err != nil {
		panic(err)
	}
	for ; it.Valid(); it.Next() {
		if err := db.Set(it.Key(), it.Value()); err != nil {
			panic(err)
		}
	}
	it.Close()
	return &World{db: db, store: dbadapter.Store{DB: db}, disc: "fresh"}
}

// HandleFields renders the long-lived handle's cached fields (part of the state identity).
func (w *World) HandleFields() string {
	if w.stale != nil {
		return w.stale.GetValue().String() + "|" + w.stale.GetTotalShares().String()
	}
	if w.long == nil {
		return ""
	}
	return w.long.GetValue().String() + "|" + w.long.GetTotalShares().String()
}

// ---------------------------------------------------------------- resolving operands against the model

func intervalOf(m *Model, iv string) (Coins, bool) {
	switch iv {
	case "", "cur":
		return m.G.clone(), true
	case "cur-1x":
		if m.G.get(denomOf["x"]).Cmp(big.NewRat(1, 1)) < 0 {
			return nil, false
		}
		return m.G.sub(Coins{denomOf["x"]: big.NewRat(1, 1)}), true
	case "zero":
		return Coins{}, true
	}
	panic("bad interval " + iv)
}

func sharesOf(m *Model, s Sym) *big.Rat {
	p := m.Pos[s.Name]
	switch s.Shares {
	case "all", "-all":
		if p == nil {
			return big.NewRat(1, 1)
		}
		r := new(big.Rat).Set(p.Shares)
		if s.Shares == "-all" {
			r.Neg(r)
		}
		return r
	case "all+1":
		if p == nil {
			return big.NewRat(1, 1)
		}
		return new(big.Rat).Add(p.Shares, big.NewRat(1, 1))
	}
	return mustRat(s.Shares)
}

// Legal reports whether s is a legal, enabled operation in model state m. Everything that is not
// legal must be refused by the implementation without effect (checked as a probe in every state).
func Legal(m *Model, s Sym) bool {
	if _, ok := intervalOf(m, s.Interval); !ok {
		return false
	}
	p := m.Pos[s.Name]
	switch s.K {
	case "grow":
		return !parseCoins(s.Coins).anyNegative()
	case "new":
		return p == nil && sharesOf(m, s).Sign() > 0 // each name is created at most once while it exists
	case "add":
		return p != nil && sharesOf(m, s).Sign() > 0
	case "rem":
		sh := sharesOf(m, s)
		return p != nil && sh.Sign() > 0 && sh.Cmp(p.Shares) <= 0
	case "upd":
		sh := sharesOf(m, s)
		if p == nil || sh.Sign() == 0 {
			return false
		}
		return sh.Sign() > 0 || new(big.Rat).Neg(sh).Cmp(p.Shares) <= 0
	case "claim", "del", "setiv":
		return p != nil
	case "unclaimed":
		return p != nil && !parseCoins(s.Coins).anyNegative()
	}
	panic("bad sym " + s.K)
}

// Outcome of one call on the implementation.
type Outcome struct {
	Err    error
	Panic  string
	Coins  Coins // ClaimRewards: truncated coins; DeletePosition: total
	Dust   Coins // ClaimRewards only
	HasRet bool
}

// Exec performs s on the implementation; operands that depend on the state ("all", "cur-1x") are
// resolved against the reference model m (the state BEFORE the call).
func Exec(w *World, m *Model, s Sym) (o Outcome) {
	refresh := false
	defer func() {
		if p := recover(); p != nil {
			o.Panic = panicClass(p)
		}
		if refresh && o.Panic == "" && o.Err == nil {
			w.refreshStale()
		}
	}()
	h := w.handle()
	if w.stale != nil && (s.K == "grow" || s.K == "del") {
		fh, err := accum.GetAccumulator(w.store, accName)
		if err != nil {
			panic(err)
		}
		h = fh
		refresh = true
	}
	iv, ok := intervalOf(m, s.Interval)
	if !ok {
		iv = m.G.clone()
	}
	ivc := toDecCoins(iv)
	switch s.K {
	case "grow":
		h.AddToAccumulator(toDecCoins(parseCoins(s.Coins)))
	case "new":
		sh := ratToDec(sharesOf(m, s))
		if s.Interval == "" {
			o.Err = h.NewPosition(s.Name, sh, nil)
		} else {
			o.Err = h.NewPositionIntervalAccumulation(s.Name, sh, ivc, nil)
		}
	case "add":
		sh := ratToDec(sharesOf(m, s))
		if s.Interval == "" {
			o.Err = h.AddToPosition(s.Name, sh)
		} else {
			o.Err = h.AddToPositionIntervalAccumulation(s.Name, sh, ivc)
		}
	case "rem":
		sh := ratToDec(sharesOf(m, s))
		if s.Interval == "" {
			o.Err = h.RemoveFromPosition(s.Name, sh)
		} else {
			o.Err = h.RemoveFromPositionIntervalAccumulation(s.Name, sh, ivc)
		}
	case "upd":
		sh := ratToDec(sharesOf(m, s))
		if s.Interval == "" {
			o.Err = h.UpdatePosition(s.Name, sh)
		} else {
			o.Err = h.UpdatePositionIntervalAccumulation(s.Name, sh, ivc)
		}
	case "claim":
		c, d, err := h.ClaimRewards(s.Name)
		o.Err, o.HasRet = err, err == nil
		o.Coins, o.Dust = fromCoins(c), fromDecCoins(d)
	case "del":
		c, err := h.DeletePosition(s.Name)
		o.Err, o.HasRet = err, err == nil
		o.Coins = fromDecCoins(c)
	case "unclaimed":
		c := parseCoins(s.Coins)
		var dc sdk.DecCoins
		for d, v := range c {
			if v.Sign() < 0 {
				dc = append(dc, sdk.DecCoin{Denom: d, Amount: osmomath.NewDecFromBigIntWithPrec(new(big.Int).Mul(v.Num(), new(big.Int).Quo(e18, v.Denom())), 18)})
			}
		}
		if dc == nil {
			dc = toDecCoins(c)
		}
		o.Err = h.AddToUnclaimedRewards(s.Name, dc)
	case "setiv":
		o.Err = h.SetPositionIntervalAccumulation(s.Name, ivc)
	default:
		panic("bad sym " + s.K)
	}
	return
}

// ApplyModel performs a LEGAL s on the model; returns the exact amount a claim/delete pays and its
// rounding budget.
func ApplyModel(m *Model, s Sym) (Coins, map[string]int) {
	iv, _ := intervalOf(m, s.Interval)
	switch s.K {
	case "grow":
		m.Grow(parseCoins(s.Coins))
	case "new":
		m.New(s.Name, sharesOf(m, s), iv)
	case "add":
		m.ChangeShares(s.Name, sharesOf(m, s), iv)
	case "rem":
		m.ChangeShares(s.Name, new(big.Rat).Neg(sharesOf(m, s)), iv)
	case "upd":
		m.ChangeShares(s.Name, sharesOf(m, s), iv)
	case "claim":
		return m.Claim(s.Name)
	case "del":
		return m.Delete(s.Name)
	case "unclaimed":
		m.AddUnclaimed(s.Name, parseCoins(s.Coins))
	case "setiv":
		m.SetInterval(s.Name, iv)
	}
	return nil, nil
}
