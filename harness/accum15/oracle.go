package main

import (
	"bytes"
	"fmt"
	"math/big"
	"regexp"
	"sort"

	"github.com/osmosis-labs/osmosis/osmoutils/accum"
)

type Finding struct {
	Assertion string
	Detail    string
}

var reNum = regexp.MustCompile(`[0-9]+`)

func panicClass(p interface{}) string {
	s := reNum.ReplaceAllString(fmt.Sprint(p), "N")
	if len(s) > 100 {
		s = s[:100]
	}
	return s
}

var names = []string{"p", "q", "r"}

const unknownName = "zz"

var halfUlp = big.NewRat(1, 2000000000000000000)

// within: |got - want| <= n half-ulps (n = 0: exact equality)
func within(got, want *big.Rat, n int) bool {
	d := new(big.Rat).Sub(got, want)
	d.Abs(d)
	return d.Cmp(new(big.Rat).Mul(halfUlp, big.NewRat(int64(n), 1))) <= 0
}

func sortedKeys(m map[string][]byte) []string {
	ks := make([]string, 0, len(m))
	for k := range m {
		ks = append(ks, k)
	}
	sort.Strings(ks)
	return ks
}

func denomsOf(cs ...Coins) []string {
	set := map[string]bool{}
	for _, c := range cs {
		for d := range c {
			set[d] = true
		}
	}
	var ds []string
	for d := range set {
		ds = append(ds, d)
	}
	sort.Strings(ds)
	return ds
}

// compareCoins checks got against the exact want with a per-denom budget of half-ulps.
func compareCoins(got, want Coins, budget func(string) int) (ok bool, slack int, msg string) {
	ok = true
	for _, d := range denomsOf(got, want) {
		b := budget(d)
		if !within(got.get(d), want.get(d), b) {
			return false, 0, fmt.Sprintf("%s: implementation %s, exact %s, tolerated %d half-units of 1e-18", d, got.get(d).FloatString(20), want.get(d).FloatString(20), b)
		}
		if got.get(d).Cmp(want.get(d)) != 0 {
			slack = 1
		}
	}
	return
}

// positionImages splits a store image into per-key values.
func storeMap(w *World) map[string][]byte {
	out := map[string][]byte{}
	it, err := w.db.Iterator(nil, nil)
	if err != nil {
		panic(err)
	}
	defer it.Close()
	for ; it.Valid(); it.Next() {
		out[string(it.Key())] = append([]byte(nil), it.Value()...)
	}
	return out
}

type stats struct {
	maxSlackHalfUlps int
	inexactStates    int64
}

// CheckState evaluates every state oracle on world w against model m. illegal = the calls that
// must be refused in this state.
func CheckState(w *World, m *Model, illegal []Sym, st *stats, vac map[string]int64, rebuild func() *World) (fs []Finding) {
	bad := func(a, f string, args ...interface{}) { fs = append(fs, Finding{a, fmt.Sprintf(f, args...)}) }
	// a slice, not a map: the order in which findings are reported must not depend on map iteration
	type namedHandle struct {
		n string
		h *accum.AccumulatorObject
	}
	fh, err := accum.GetAccumulator(w.store, accName)
	if err != nil {
		bad("accumulator.readable", "GetAccumulator: %v", err)
		return
	}
	handles := []namedHandle{{"store", fh}}
	if w.long != nil {
		handles = append(handles, namedHandle{"long-lived handle", w.long})
	}
	wantShares := m.TotalShares()
	for _, nh := range handles {
		hn, h := nh.n, nh.h
		if got := decToRat(h.GetTotalShares()); got.Cmp(wantShares) != 0 {
			bad("total_shares", "%s: total shares %s, sum of position shares %s", hn, got.FloatString(18), wantShares.FloatString(18))
		}
		if got := fromDecCoins(h.GetValue()); got.String() != m.G.String() {
			bad("accumulator_value", "%s: value per share %s, sum of growth %s", hn, got, m.G)
		}
	}
	h := w.handle()
	inexact := false
	for _, n := range append(append([]string{}, names...), unknownName) {
		mp := m.Pos[n]
		has := h.HasPosition(n)
		rec, gerr := h.GetPosition(n)
		_, serr := h.GetPositionSize(n)
		if mp == nil {
			if has || gerr == nil || serr == nil {
				bad("position_absent", "position %s should not exist: HasPosition=%v GetPosition err=%v GetPositionSize err=%v", n, has, gerr, serr)
			}
			continue
		}
		if !has || gerr != nil || serr != nil {
			bad("position_present", "position %s should exist: HasPosition=%v GetPosition err=%v GetPositionSize err=%v", n, has, gerr, serr)
			continue
		}
		if got := decToRat(rec.NumShares); got.Cmp(mp.Shares) != 0 {
			bad("position_shares", "position %s holds %s shares, reference %s", n, got.FloatString(18), mp.Shares.FloatString(18))
		}
		// the panicking accessor returns the same record
		var mrec accum.Record
		if p := tryf(func() { mrec = h.MustGetPosition(n) }); p != "" {
			bad("position_present", "MustGetPosition(%s) panicked for an existing position: %s", n, p)
		} else {
			same := false
			if p := tryf(func() {
				same = mrec.NumShares.Equal(rec.NumShares) && mrec.AccumValuePerShare.String() == rec.AccumValuePerShare.String() && mrec.UnclaimedRewardsTotal.String() == rec.UnclaimedRewardsTotal.String()
			}); p != "" || !same {
				bad("position_present", "MustGetPosition(%s) returns a record that differs from GetPosition's (%s)", n, p)
			}
		}
		// what the position can claim now
		var claimable Coins
		if p := tryf(func() { claimable = fromDecCoins(accum.GetTotalRewards(h, rec)) }); p != "" {
			bad("claimable", "GetTotalRewards(%s) panicked: %s", n, p)
			continue
		}
		want := mp.Claimable()
		ok, slack, msg := compareCoins(claimable, want, mp.Budget)
		if !ok {
			bad("claimable", "position %s can claim %s; growth x shares held = %s; %s", n, claimable, want, msg)
		}
		if slack > 0 {
			inexact = true
		}
		for _, d := range denomsOf(want) {
			if b := mp.Budget(d); b > st.maxSlackHalfUlps {
				st.maxSlackHalfUlps = b
			}
		}
		// probe: claim on a discarded copy
		c := w.Copy()
		before := storeMap(c)
		ch := c.handle()
		var o Outcome
		o = Exec(c, m, Sym{K: "claim", Name: n})
		_ = ch
		if o.Err != nil || o.Panic != "" {
			bad("claim_succeeds", "ClaimRewards(%s) on an existing position: err=%v panic=%s", n, o.Err, o.Panic)
			continue
		}
		vac["claim_probes"]++
		sum := o.Coins.add(o.Dust)
		if sum.String() != claimable.String() {
			bad("claim_amount", "ClaimRewards(%s) returned %s + dust %s, claimable was %s", n, o.Coins, o.Dust, claimable)
		}
		for _, d := range denomsOf(o.Coins, o.Dust) {
			if !o.Coins.get(d).IsInt() || o.Dust.get(d).Sign() < 0 || o.Dust.get(d).Cmp(big.NewRat(1, 1)) >= 0 {
				bad("claim_truncation", "ClaimRewards(%s): %s coins %s dust %s is not integer part + fraction", n, d, o.Coins.get(d).RatString(), o.Dust.get(d).RatString())
			}
			if o.Dust.get(d).Sign() > 0 {
				vac["claims_with_dust"]++
			}
		}
		after := storeMap(c)
		pk := string(accum.FormatPositionPrefixKey(accName, n))
		for _, k := range sortedKeys(before) {
			if k != pk && !bytes.Equal(after[k], before[k]) {
				bad("claim_isolated", "ClaimRewards(%s) changed store entry %q", n, k)
			}
		}
		for _, k := range sortedKeys(after) {
			if _, ok := before[k]; !ok {
				bad("claim_isolated", "ClaimRewards(%s) created store entry %q", n, k)
			}
		}
		ch2 := c.handle()
		if mp.Shares.Sign() == 0 {
			if ch2.HasPosition(n) {
				bad("zero_share_claim_deletes", "position %s holds no shares and claimed, but still exists", n)
			}
			vac["zero_share_claims"]++
		} else {
			r2, e2 := ch2.GetPosition(n)
			if e2 != nil {
				bad("claim_resets", "position %s vanished after a claim with %s shares", n, mp.Shares.RatString())
			} else if left := fromDecCoins(accum.GetTotalRewards(ch2, r2)); left.String() != "" || decToRat(r2.NumShares).Cmp(mp.Shares) != 0 {
				bad("claim_resets", "after ClaimRewards(%s): still claimable %s, shares %s (reference %s)", n, left, r2.NumShares, mp.Shares.RatString())
			}
		}
	}
	if inexact {
		st.inexactStates++
		vac["states_with_rounded_claimable"]++
	}
	// illegal calls: must return an error and leave the store (and a long-lived handle) untouched.
	// The store is compared once after the whole batch; only if it differs is the batch repeated call
	// by call on rebuilt states to name the culprit.
	img := w.Image()
	hf := w.HandleFields()
	for _, s := range illegal {
		o := Exec(w, m, s)
		vac["illegal_calls"]++
		if o.Panic != "" {
			bad("illegal_call_refused", "%s (%s) panicked instead of returning an error: %s", s, s.Illegal, o.Panic)
		} else if o.Err == nil {
			bad("illegal_call_refused", "%s (%s) returned no error", s, s.Illegal)
		}
	}
	if !bytes.Equal(w.Image(), img) || w.HandleFields() != hf {
		named := false
		for _, s := range illegal {
			w2 := rebuild()
			i2, h2 := w2.Image(), w2.HandleFields()
			Exec(w2, m, s)
			if !bytes.Equal(w2.Image(), i2) {
				bad("illegal_call_no_effect", "%s (%s) changed the store", s, s.Illegal)
				named = true
				break
			}
			if w2.HandleFields() != h2 {
				bad("illegal_call_no_effect", "%s (%s) changed the long-lived handle: %s -> %s", s, s.Illegal, h2, w2.HandleFields())
				named = true
				break
			}
		}
		if !named {
			bad("illegal_call_no_effect", "a batch of refused calls changed the store or the handle (no single call reproduces it)")
		}
	}
	return
}

func tryf(f func()) (msg string) {
	defer func() {
		if p := recover(); p != nil {
			msg = panicClass(p)
		}
	}()
	f()
	return ""
}
