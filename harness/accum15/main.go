// Command accum15 is the engine-B explorer for property C15: breadth-first search over all
// reachable states (bounded depth) of a real osmoutils/accum.AccumulatorObject on a real in-memory
// KV store, under three handle disciplines, against an exact big.Rat reference model.
package main

import (
	"crypto/sha256"
	"flag"
	"fmt"
	"os"
	"runtime/debug"
	"strings"
	"time"

	core "github.com/osmosis-labs/osmosis/osmoutils/zzverif/res"
)

// ---------------------------------------------------------------- alphabet

const tiny = "0.000000000000000007"

func alphabet() []Sym {
	return []Sym{
		{K: "grow", Coins: "0.5x"},
		{K: "grow", Coins: "3x"},
		{K: "grow", Coins: "0.000000000000000001y"},
		{K: "grow", Coins: "1x,2y"},
		{K: "new", Name: "p", Shares: "1"},
		{K: "new", Name: "p", Shares: "2"},
		{K: "new", Name: "q", Shares: "2"},
		{K: "new", Name: "q", Shares: tiny},
		{K: "new", Name: "r", Shares: "1"},
		{K: "new", Name: "r", Shares: "1", Interval: "cur-1x"},
		{K: "add", Name: "p", Shares: "1"},
		{K: "add", Name: "p", Shares: tiny},
		{K: "add", Name: "q", Shares: "2"},
		{K: "add", Name: "p", Shares: "1", Interval: "cur-1x"},
		{K: "rem", Name: "p", Shares: "1"},
		{K: "rem", Name: "p", Shares: "all"},
		{K: "rem", Name: "q", Shares: tiny},
		{K: "rem", Name: "q", Shares: "all"},
		{K: "rem", Name: "p", Shares: "1", Interval: "cur-1x"},
		{K: "upd", Name: "p", Shares: "2"},
		{K: "upd", Name: "p", Shares: "-1"},
		{K: "upd", Name: "q", Shares: "-all"},
		{K: "claim", Name: "p"},
		{K: "claim", Name: "q"},
		{K: "claim", Name: "r"},
		{K: "del", Name: "p"},
		{K: "del", Name: "q"},
		{K: "unclaimed", Name: "p", Coins: "0.25x"},
		{K: "unclaimed", Name: "q", Coins: "1y"},
		{K: "setiv", Name: "p", Interval: "cur-1x"},
		{K: "setiv", Name: "p", Interval: "zero"},
		{K: "setiv", Name: "q", Interval: "cur"},
	}
}

// explicitIllegal are calls that must be refused in EVERY state.
func explicitIllegal() []Sym {
	var out []Sym
	for _, n := range []string{"p", "q"} {
		out = append(out,
			Sym{K: "add", Name: n, Shares: "0", Illegal: "zero shares"},
			Sym{K: "add", Name: n, Shares: "-1", Illegal: "negative shares"},
			Sym{K: "add", Name: n, Shares: "0", Interval: "cur", Illegal: "zero shares"},
			Sym{K: "rem", Name: n, Shares: "0", Illegal: "zero shares"},
			Sym{K: "rem", Name: n, Shares: "-1", Illegal: "negative shares"},
			Sym{K: "rem", Name: n, Shares: "all+1", Illegal: "more shares than held"},
			Sym{K: "rem", Name: n, Shares: "all+1", Interval: "cur", Illegal: "more shares than held"},
			Sym{K: "upd", Name: n, Shares: "0", Illegal: "zero shares"},
			Sym{K: "unclaimed", Name: n, Coins: "-1x", Illegal: "negative rewards"},
		)
	}
	z := unknownName
	out = append(out,
		Sym{K: "add", Name: z, Shares: "1", Illegal: "unknown position"},
		Sym{K: "rem", Name: z, Shares: "1", Illegal: "unknown position"},
		Sym{K: "upd", Name: z, Shares: "1", Illegal: "unknown position"},
		Sym{K: "upd", Name: z, Shares: "-1", Illegal: "unknown position"},
		Sym{K: "claim", Name: z, Illegal: "unknown position"},
		Sym{K: "del", Name: z, Illegal: "unknown position"},
		Sym{K: "unclaimed", Name: z, Coins: "1x", Illegal: "unknown position"},
		Sym{K: "setiv", Name: z, Interval: "cur", Illegal: "unknown position"},
	)
	return out
}

// illegalIn lists the calls that must be refused in model state m: the explicit ones plus every
// alphabet symbol that is not legal here (position missing, more shares than held).
func illegalIn(m *Model, alpha []Sym) []Sym {
	out := explicitIllegal()
	for _, s := range alpha {
		if s.K == "grow" || s.K == "new" {
			continue // re-creating an existing name is excluded by the property's quantifier, not refused by the library
		}
		if _, ok := intervalOf(m, s.Interval); !ok {
			continue
		}
		if !Legal(m, s) {
			t := s
			t.Illegal = "not legal in this state (no such position / more shares than held)"
			out = append(out, t)
		}
	}
	return out
}

// ---------------------------------------------------------------- one transition

// checkOutcome compares what a LEGAL call returned with the model (claim / delete amounts).
func checkOutcome(s Sym, o Outcome, exact Coins, bud map[string]int, vac map[string]int64) (fs []Finding) {
	if o.Panic != "" {
		return []Finding{{"legal_call_succeeds", fmt.Sprintf("%s panicked: %s", s, o.Panic)}}
	}
	if o.Err != nil {
		return []Finding{{"legal_call_succeeds", fmt.Sprintf("%s returned error: %v", s, o.Err)}}
	}
	switch s.K {
	case "claim":
		sum := o.Coins.add(o.Dust)
		if ok, _, msg := compareCoins(sum, exact, func(d string) int { return bud[d] }); !ok {
			fs = append(fs, Finding{"claim_pays_growth_times_shares", fmt.Sprintf("%s paid %s + dust %s; growth x shares held = %s; %s", s, o.Coins, o.Dust, exact, msg)})
		}
		for _, d := range denomsOf(o.Coins, o.Dust) {
			if !o.Coins.get(d).IsInt() || o.Dust.get(d).Sign() < 0 || o.Dust.get(d).Cmp(mustRat("1")) >= 0 {
				fs = append(fs, Finding{"claim_truncation", fmt.Sprintf("%s: %s coins %s dust %s", s, d, o.Coins.get(d).RatString(), o.Dust.get(d).RatString())})
			}
		}
		if sum.String() != "" {
			vac["claims_paying_something"]++
		}
	case "del":
		if ok, _, msg := compareCoins(o.Coins, exact, func(d string) int { return bud[d] }); !ok {
			fs = append(fs, Finding{"delete_pays_growth_times_shares", fmt.Sprintf("%s returned %s; growth x shares held = %s; %s", s, o.Coins, exact, msg)})
		}
		vac["deletes"]++
	}
	return
}

// replayPath executes path on a fresh world/model WITHOUT checks (every prefix was checked when it
// was first reached). Returns false if an op unexpectedly fails (then the caller reports).
func replayPath(disc string, path []Sym) (*World, *Model) {
	w := NewWorld(disc)
	m := NewModel()
	for _, s := range path {
		Exec(w, m, s)
		ApplyModel(m, s)
	}
	return w, m
}

func stateHash(disc string, w *World, m *Model) [32]byte {
	h := sha256.New()
	h.Write([]byte(disc))
	h.Write([]byte{0})
	h.Write(w.Image())
	h.Write([]byte{0})
	h.Write([]byte(w.HandleFields()))
	h.Write([]byte{0})
	h.Write([]byte(m.String()))
	var out [32]byte
	copy(out[:], h.Sum(nil))
	return out
}

// ---------------------------------------------------------------- explorer

type rec struct {
	parent int32
	sym    int16
}

type node struct {
	idx   int32
	model *Model
}

type explorer struct {
	f     *core.Flags
	r     *core.Result
	disc  string
	alpha []Sym
	recs  []rec
	seen  *core.Seen
	st    stats
	shr   map[string]int

	frontier []node
	depth    int
	bound    int // depth bound of the run: states of the last level are checked but not kept (they are never expanded)
}

func (e *explorer) path(idx int32, last int) []Sym {
	var rev []Sym
	if last >= 0 {
		rev = append(rev, e.alpha[last])
	}
	for i := idx; i > 0; i = e.recs[i].parent {
		rev = append(rev, e.alpha[e.recs[i].sym])
	}
	for i, j := 0, len(rev)-1; i < j; i, j = i+1, j-1 {
		rev[i], rev[j] = rev[j], rev[i]
	}
	return rev
}

type ReplayDoc struct {
	Disc      string `json:"discipline"`
	Ops       []Sym  `json:"ops"`
	Assertion string `json:"assertion"`
	Text      string `json:"text"`
}

// evalPath runs path from scratch with every check at every step; returns the findings of the LAST step.
func evalPath(disc string, alpha, path []Sym) (last []Finding, legal bool) {
	w := NewWorld(disc)
	m := NewModel()
	vac := map[string]int64{}
	var st stats
	for i, s := range path {
		if !Legal(m, s) {
			return nil, false
		}
		o := Exec(w, m, s)
		exact, bud := ApplyModel(m, s)
		if i == len(path)-1 {
			last = append(last, checkOutcome(s, o, exact, bud, vac)...)
		}
	}
	last = append(last, CheckState(w, m, illegalIn(m, alpha), &st, vac, func() *World { w2, _ := replayPath(disc, path); return w2 })...)
	return last, true
}

func failsWith(disc string, alpha, path []Sym, a string) (bool, string) {
	fs, ok := evalPath(disc, alpha, path)
	if !ok {
		return false, ""
	}
	for _, f := range fs {
		if f.Assertion == a {
			return true, f.Detail
		}
	}
	return false, ""
}

func shrink(disc string, alpha, path []Sym, a string) []Sym {
	cur := append([]Sym(nil), path...)
	for changed := true; changed; {
		changed = false
		for i := 0; i < len(cur); i++ {
			cand := append(append([]Sym(nil), cur[:i]...), cur[i+1:]...)
			if ok, _ := failsWith(disc, alpha, cand, a); ok {
				cur = cand
				changed = true
				i--
			}
		}
	}
	return cur
}

func (e *explorer) report(f Finding, path []Sym) {
	if e.shr[f.Assertion] >= 25 {
		e.r.Extra["sum_violations_not_shrunk"] = asInt(e.r.Extra["sum_violations_not_shrunk"]) + 1
		return
	}
	e.shr[f.Assertion]++
	min := shrink(e.disc, e.alpha, path, f.Assertion)
	ok1, d1 := failsWith(e.disc, e.alpha, min, f.Assertion)
	ok2, d2 := failsWith(e.disc, e.alpha, min, f.Assertion)
	if !ok1 || !ok2 || d1 != d2 {
		fmt.Fprintf(os.Stderr, "harness: replay of [%s] diverged for %s: run 1 fails=%v %q; run 2 fails=%v %q\n", symsString(min), f.Assertion, ok1, d1, ok2, d2)
		os.Exit(2)
	}
	e.r.AddViolation(core.Violation{
		Property:  e.r.Property,
		Assertion: f.Assertion,
		Signature: fmt.Sprintf("%s|%s|%s", f.Assertion, e.disc, symsString(min)),
		Detail:    fmt.Sprintf("handle discipline %s, after [%s]: %s", e.disc, symsString(min), d1),
		Replay:    ReplayDoc{Disc: e.disc, Ops: min, Assertion: f.Assertion, Text: symsString(min)},
	})
}

func asInt(v interface{}) int64 {
	if x, ok := v.(int64); ok {
		return x
	}
	return 0
}

// expand generates the successors of the frontier; returns the next frontier.
func (e *explorer) expand(frontier []node, depth int) (next []node, complete bool) {
	r := e.r
	for _, nd := range frontier {
		if e.f.Expired() {
			return next, false
		}
		base := e.path(nd.idx, -1)
		for si, s := range e.alpha {
			if !Legal(nd.model, s) {
				continue
			}
			w, m := replayPath(e.disc, base)
			r.Transitions++
			o := Exec(w, m, s)
			exact, bud := ApplyModel(m, s)
			fs := checkOutcome(s, o, exact, bud, r.Vacuity)
			if !e.seen.Add(stateHash(e.disc, w, m)) && len(fs) == 0 {
				continue
			}
			final := depth == e.bound-1
			if !final {
				e.recs = append(e.recs, rec{nd.idx, int16(si)})
			}
			idx := int32(len(e.recs) - 1)
			r.States++
			ill := illegalIn(m, e.alpha)
			full := append(append([]Sym(nil), base...), s)
			fs = append(fs, CheckState(w, m, ill, &e.st, r.Vacuity, func() *World { w2, _ := replayPath(e.disc, full); return w2 })...)
			r.Transitions += int64(len(ill))
			r.Rejected["illegal_call_refused_without_effect"] += int64(len(ill))
			if len(fs) > 0 {
				p := full
				seenA := map[string]bool{}
				for _, f := range fs {
					if !seenA[f.Assertion] {
						seenA[f.Assertion] = true
						e.report(f, p)
					}
				}
				continue // do not build on a state that already violates the property
			}
			if len(m.Pos) >= 2 {
				r.Vacuity["states_with_two_or_more_positions"]++
			}
			if len(r.Samples) < 3 && depth >= 2 && len(m.Pos) >= 2 {
				r.AddSample(e.disc + ": " + symsString(full))
			}
			if !final {
				next = append(next, node{idx, m})
			}
		}
	}
	return next, true
}

// start checks the initial state; step expands one BFS level. Levels are interleaved between the two
// disciplines by main so that a deadline cuts both at the same depth.
func (e *explorer) start() {
	r := e.r
	w, m := replayPath(e.disc, nil)
	e.seen.Add(stateHash(e.disc, w, m))
	e.recs = append(e.recs, rec{-1, -1})
	r.States++
	for _, f := range CheckState(w, m, illegalIn(m, e.alpha), &e.st, r.Vacuity, func() *World { w2, _ := replayPath(e.disc, nil); return w2 }) {
		e.report(f, nil)
	}
	e.frontier = []node{{0, m}}
}

const shardLevel = 2

func (e *explorer) step() bool {
	r := e.r
	if e.depth == shardLevel {
		// levels 0..2 are computed identically by every shard; the level-2 states are dealt out
		var mine []node
		for i, nd := range e.frontier {
			if e.f.Mine(i) {
				mine = append(mine, nd)
			}
		}
		e.frontier = mine
	}
	next, complete := e.expand(e.frontier, e.depth)
	if !complete {
		r.Exhaustive = false
		return false
	}
	e.depth++
	e.frontier = next
	fmt.Fprintf(os.Stderr, "  %s depth %d: frontier %d states %d transitions %d %.1fs\n", e.disc, e.depth, len(e.frontier), r.States, r.Transitions, time.Since(e.f.Start).Seconds())
	if e.st.maxSlackHalfUlps > int(asInt(r.Extra["max_tolerance_half_ulps"])) {
		r.Extra["max_tolerance_half_ulps"] = int64(e.st.maxSlackHalfUlps)
	}
	return true
}

// ---------------------------------------------------------------- main

func main() {
	depthFlag := flag.Int("depth", 0, "override the depth bound")
	f := core.ParseFlags()
	debug.SetGCPercent(400)
	if f.Prop == "" {
		f.Prop = "C15"
	}
	r := core.NewResult(f.Prop)
	alpha := alphabet()
	if f.Replay != "" {
		var doc ReplayDoc
		core.ReadReplay(f.Replay, &doc)
		fmt.Printf("replaying (discipline %s): %s\n", doc.Disc, symsString(doc.Ops))
		for i := 0; i <= len(doc.Ops); i++ {
			fs, legal := evalPath(doc.Disc, alpha, doc.Ops[:i])
			if !legal {
				fmt.Printf("  step %d is not a legal call in the reference model\n", i)
				break
			}
			r.States++
			r.Transitions++
			for _, fd := range fs {
				fmt.Printf("  after %d ops: %s: %s\n", i, fd.Assertion, fd.Detail)
				r.AddViolation(core.Violation{Property: r.Property, Assertion: fd.Assertion,
					Signature: fmt.Sprintf("%s|%s|%s", fd.Assertion, doc.Disc, symsString(doc.Ops[:i])), Detail: fd.Detail, Replay: doc})
			}
		}
		r.Traces = 1
		finish(f, r)
		return
	}
	depth := 5
	if f.Tier == "thorough" {
		depth = 6
	}
	if *depthFlag > 0 {
		depth = *depthFlag
	}
	// the accumulator must be creatable and readable at all: a failure here is the library's, not the harness's
	if p := tryf(func() { NewWorld("long"); NewWorld("stale") }); p != "" {
		r.AddViolation(core.Violation{Property: r.Property, Assertion: "accumulator.readable", Signature: "accumulator.readable|setup",
			Detail: "MakeAccumulator followed by GetAccumulator on an empty store failed: " + p, Replay: ReplayDoc{Disc: "long", Ops: nil, Assertion: "accumulator.readable"}})
		r.States, r.Transitions = 1, 1
		finish(f, r)
		return
	}
	seen := core.NewSeen()
	var es []*explorer
	for _, disc := range []string{"fresh", "long", "stale"} {
		e := &explorer{f: f, r: r, disc: disc, alpha: alpha, seen: seen, shr: map[string]int{}, bound: depth}
		e.start()
		es = append(es, e)
	}
	r.DepthCompleted = 0
levels:
	for d := 0; d < depth; d++ {
		for _, e := range es {
			if !e.step() {
				break levels
			}
		}
		r.DepthCompleted = d + 1
	}
	r.Traces = r.States
	var names []string
	for _, s := range alpha {
		names = append(names, s.String())
	}
	r.Extra["alphabet"] = strings.Join(names, "; ")
	r.Extra["illegal_calls_probed_in_every_state"] = symsString(explicitIllegal()) + "; plus every alphabet call that is not legal in the state"
	r.Extra["disciplines"] = "fresh GetAccumulator before every call; one long-lived handle for the whole history; stale: every position call through a copy of the handle fetched after the last growth/deletion (cached total shares behind the store), growth and deletion through a fresh handle"
	r.Extra["depth_bound"] = depth
	probeObservations(r)
	seen.Dump(f.HashOut)
	finish(f, r)
}

// probeObservations records library behaviours the property statement does not speak about.
func probeObservations(r *core.Result) {
	w := NewWorld("fresh")
	m := NewModel()
	o := Exec(w, m, Sym{K: "new", Name: "p", Shares: "0"})
	r.Extra["observation_NewPosition_zero_shares"] = fmt.Sprintf("err=%v panic=%q", o.Err, o.Panic)
	o = Exec(w, m, Sym{K: "new", Name: "q", Shares: "-1"})
	r.Extra["observation_NewPosition_negative_shares"] = fmt.Sprintf("err=%v panic=%q", o.Err, o.Panic)
}

func finish(f *core.Flags, r *core.Result) {
	r.WallS = time.Since(f.Start).Seconds()
	r.Emit()
}
