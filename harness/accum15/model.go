package main

// Reference model of C15 in exact rational arithmetic (math/big.Rat), driven by the requested
// operations only. Growth is distributed EAGERLY: when the accumulator grows by g, every existing
// position immediately earns g * (shares it holds now). The implementation does the opposite
// (lazy: snapshot + settle on every share change), so the two computations are independent.
//
// Per position:   shares, settled (rewards already moved to "unclaimed"), pending (earned since the
// last settlement, the implementation has not materialised it yet), and the rounding budget: the
// number of settlements whose exact product was not representable with 18 decimals (each costs the
// implementation at most half a unit of 10^-18 per denomination).

import (
	"fmt"
	"math/big"
	"sort"
	"strings"
)

type Coins map[string]*big.Rat // denom -> amount (missing = 0)

func (c Coins) clone() Coins {
	o := Coins{}
	for d, v := range c {
		o[d] = new(big.Rat).Set(v)
	}
	return o
}

func (c Coins) get(d string) *big.Rat {
	if v, ok := c[d]; ok {
		return v
	}
	return new(big.Rat)
}

func (c Coins) add(o Coins) Coins {
	r := c.clone()
	for d, v := range o {
		r[d] = new(big.Rat).Add(r.get(d), v)
	}
	return r
}

func (c Coins) sub(o Coins) Coins {
	r := c.clone()
	for d, v := range o {
		r[d] = new(big.Rat).Sub(r.get(d), v)
	}
	return r
}

func (c Coins) mul(x *big.Rat) Coins {
	r := Coins{}
	for d, v := range c {
		r[d] = new(big.Rat).Mul(v, x)
	}
	return r
}

func (c Coins) anyNegative() bool {
	for _, v := range c {
		if v.Sign() < 0 {
			return true
		}
	}
	return false
}

func (c Coins) String() string {
	var ds []string
	for d, v := range c {
		if v.Sign() != 0 {
			ds = append(ds, d)
		}
	}
	sort.Strings(ds)
	var sb strings.Builder
	for _, d := range ds {
		fmt.Fprintf(&sb, "%s%s,", c[d].RatString(), d)
	}
	return sb.String()
}

var ulp = big.NewRat(1, 1000000000000000000)

// representable: x has at most 18 decimals
func representable(x *big.Rat) bool {
	q := new(big.Rat).Quo(x, ulp)
	return q.IsInt()
}

type MPos struct {
	Shares  *big.Rat
	Settled Coins
	Pending Coins
	Half    map[string]int // per denom: settlements that may have rounded (each <= 1/2 ulp)
}

func (p *MPos) clone() *MPos {
	h := map[string]int{}
	for d, n := range p.Half {
		h[d] = n
	}
	return &MPos{Shares: new(big.Rat).Set(p.Shares), Settled: p.Settled.clone(), Pending: p.Pending.clone(), Half: h}
}

// Claimable is the exact amount the position can claim now.
func (p *MPos) Claimable() Coins { return p.Settled.add(p.Pending) }

// Budget returns the tolerated |impl - exact| for denom d, in half-ulps, when the claimable amount
// is observed now (the pending part is multiplied out once more at observation).
func (p *MPos) Budget(d string) int {
	n := p.Half[d]
	if !representable(p.Pending.get(d)) {
		n++
	}
	return n
}

type Model struct {
	G   Coins // accumulated growth per share
	Pos map[string]*MPos
}

func NewModel() *Model { return &Model{G: Coins{}, Pos: map[string]*MPos{}} }

func (m *Model) clone() *Model {
	o := &Model{G: m.G.clone(), Pos: map[string]*MPos{}}
	for n, p := range m.Pos {
		o.Pos[n] = p.clone()
	}
	return o
}

func (m *Model) TotalShares() *big.Rat {
	t := new(big.Rat)
	for _, p := range m.Pos {
		t.Add(t, p.Shares)
	}
	return t
}

func (m *Model) String() string {
	var ns []string
	for n := range m.Pos {
		ns = append(ns, n)
	}
	sort.Strings(ns)
	var sb strings.Builder
	fmt.Fprintf(&sb, "G=%s", m.G)
	for _, n := range ns {
		p := m.Pos[n]
		var hs []string
		for d, c := range p.Half {
			if c > 0 {
				hs = append(hs, fmt.Sprintf("%s:%d", d, c))
			}
		}
		sort.Strings(hs)
		fmt.Fprintf(&sb, " %s{sh=%s set=%s pend=%s half=%s}", n, p.Shares.RatString(), p.Settled, p.Pending, strings.Join(hs, ","))
	}
	return sb.String()
}

// ---- transitions (only called for LEGAL operations)

func (m *Model) Grow(g Coins) {
	m.G = m.G.add(g)
	for _, p := range m.Pos {
		p.Pending = p.Pending.add(g.mul(p.Shares))
	}
}

func (m *Model) New(name string, shares *big.Rat, interval Coins) {
	p := &MPos{Shares: new(big.Rat).Set(shares), Settled: Coins{}, Half: map[string]int{}}
	p.Pending = m.G.sub(interval).mul(shares)
	m.Pos[name] = p
}

func (p *MPos) settle() {
	for d, v := range p.Pending {
		if !representable(v) {
			p.Half[d]++
		}
	}
	p.Settled = p.Settled.add(p.Pending)
	p.Pending = Coins{}
}

// ChangeShares: settle what was earned with the old share count, change the count, and restart the
// pending part from the given interval snapshot.
func (m *Model) ChangeShares(name string, delta *big.Rat, interval Coins) {
	p := m.Pos[name]
	p.settle()
	p.Shares = new(big.Rat).Add(p.Shares, delta)
	p.Pending = m.G.sub(interval).mul(p.Shares)
}

func (m *Model) SetInterval(name string, interval Coins) {
	p := m.Pos[name]
	p.Pending = m.G.sub(interval).mul(p.Shares)
}

func (m *Model) AddUnclaimed(name string, c Coins) {
	p := m.Pos[name]
	p.Settled = p.Settled.add(c)
}

// Claim returns the exact claimable amount and resets the position (deletes it at zero shares).
func (m *Model) Claim(name string) (Coins, map[string]int) {
	p := m.Pos[name]
	tot := p.Claimable()
	bud := map[string]int{}
	for d := range tot {
		bud[d] = p.Budget(d)
	}
	if p.Shares.Sign() == 0 {
		delete(m.Pos, name)
	} else {
		p.Settled, p.Pending, p.Half = Coins{}, Coins{}, map[string]int{}
	}
	return tot, bud
}

func (m *Model) Delete(name string) (Coins, map[string]int) {
	p := m.Pos[name]
	tot := p.Claimable()
	bud := map[string]int{}
	for d := range tot {
		bud[d] = p.Budget(d)
	}
	delete(m.Pos, name)
	return tot, bud
}
