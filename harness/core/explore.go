package core

import (
	"encoding/json"
	"fmt"

	sdk "github.com/cosmos/cosmos-sdk/types"

	"github.com/osmosis-labs/osmosis/v31/app"
)

// Cloner is a reference ledger that can be copied by value on branching.
type Cloner[L any] interface {
	Clone() L
}

// Scenario binds the explorer to one property group. O is the operation type (JSON-able),
// L the reference ledger.
type Scenario[O any, L Cloner[L]] struct {
	App    *app.OsmosisApp
	Stores []string // KV stores included in the canonical hash (nil = all)
	// Enabled lists the operations to try in this state, simplest first.
	Enabled func(ctx sdk.Context, l L, depth int) []O
	// Apply executes op on ctx (already a private branch) and updates the ledger. It returns the
	// context to continue with (block boundaries change it) and a short outcome class
	// ("ok", "rejected:<class>"). Post-condition failures are reported through fail.
	Apply func(ctx sdk.Context, l L, op O, fail func(assertion, sig, detail string)) (sdk.Context, string)
	// Check evaluates the state invariants; may branch ctx itself for destructive probes.
	Check func(ctx sdk.Context, l L, fail func(assertion, sig, detail string))
	// LedgerKey, when set, is appended to the state hash (ledger information that is not a function
	// of the store, e.g. price history kept by the harness).
	LedgerKey func(l L) []byte
	// Config is copied into every replay artefact.
	Config interface{}
}

// Replay artefact of the ledger explorers.
type Trace[O any] struct {
	Config interface{} `json:"config"`
	Seed   string      `json:"seed_state"`
	Ops    []O         `json:"ops"`
}

type Explorer[O any, L Cloner[L]] struct {
	Sc       *Scenario[O, L]
	F        *Flags
	R        *Result
	Seen     map[[16]byte]int8 // canonical state -> largest remaining depth it was expanded with
	outcomes map[string]struct{}
	l2       int // running index of level-2 subtrees (sharding unit)
	seedName string
	stop     bool
}

func NewExplorer[O any, L Cloner[L]](sc *Scenario[O, L], f *Flags, r *Result) *Explorer[O, L] {
	return &Explorer[O, L]{Sc: sc, F: f, R: r, Seen: map[[16]byte]int8{}, outcomes: map[string]struct{}{}}
}

func (e *Explorer[O, L]) fail(trace []O) func(a, s, d string) {
	return func(assertion, sig, detail string) {
		tr := Trace[O]{Config: e.Sc.Config, Seed: e.seedName, Ops: append([]O{}, trace...)}
		if sig == "" {
			bz, _ := json.Marshal(tr.Ops)
			sig = e.seedName + ":" + string(bz)
		}
		e.R.AddViolation(Violation{Property: e.R.Property, Assertion: assertion, Signature: sig, Detail: detail, Replay: tr})
	}
}

func (e *Explorer[O, L]) key(ctx sdk.Context, l L) [16]byte {
	h := StateHash(e.Sc.App, ctx, e.Sc.Stores)
	var k [16]byte
	copy(k[:], h[:16])
	if e.Sc.LedgerKey != nil {
		lk := e.Sc.LedgerKey(l)
		for i, b := range lk {
			k[i%16] ^= b + byte(i)
		}
	}
	return k
}

// Run explores every operation sequence of length <= depth from (ctx, ledger). The root state is
// checked too. Level-2 subtrees are dealt to shards; levels 0 and 1 are executed by every shard but
// counted and checked by shard 0 only.
func (e *Explorer[O, L]) Run(seedName string, ctx sdk.Context, ledger L, depth int) {
	e.seedName = seedName
	root, _ := ctx.CacheContext()
	if e.F.Shard == 0 {
		e.Sc.Check(root, ledger, e.fail(nil))
		e.R.States++
	}
	e.rec(root, ledger, depth, 0, nil)
	if !e.stop {
		if e.R.DepthCompleted == 0 || depth < e.R.DepthCompleted {
			e.R.DepthCompleted = depth
		}
	}
}

func (e *Explorer[O, L]) rec(ctx sdk.Context, ledger L, remaining, level int, trace []O) {
	if remaining == 0 || e.stop {
		if remaining == 0 {
			e.R.Traces++
			if len(e.R.Samples) < 3 {
				e.R.AddSample(map[string]interface{}{"seed_state": e.seedName, "ops": append([]O{}, trace...)})
			}
		}
		return
	}
	ops := e.Sc.Enabled(ctx, ledger, level)
	for _, op := range ops {
		if e.F.Expired() {
			e.stop = true
			e.R.Exhaustive = false
			return
		}
		mine := true
		if level == 0 {
			mine = e.F.Shard == 0
		} else if level == 1 {
			mine = e.F.Mine(e.l2)
			e.l2++
			if !mine {
				continue
			}
		}
		ResetCaches(e.Sc.App, ctx)
		child, _ := ctx.CacheContext()
		l2 := ledger.Clone()
		tr := append(append([]O{}, trace...), op)
		f := e.fail(tr)
		next, outcome := e.Sc.Apply(child, l2, op, f)
		if mine {
			e.R.Transitions++
			if outcome != "ok" {
				e.R.Rejected[outcome]++
				// keep the first (shortest-first order) history per rejection class as evidence
				rs, _ := e.R.Extra["rejected_samples"].(map[string]interface{})
				if rs == nil {
					rs = map[string]interface{}{}
					e.R.Extra["rejected_samples"] = rs
				}
				if _, ok := rs[outcome]; !ok && len(rs) < 40 {
					rs[outcome] = map[string]interface{}{"seed_state": e.seedName, "config": e.Sc.Config, "ops": tr}
				}
			}
		}
		k := e.key(next, l2)
		prev, seen := e.Seen[k]
		if mine && !seen {
			e.Sc.Check(next, l2, f)
			e.R.States++
		}
		if seen && int(prev) >= remaining-1 {
			if remaining-1 == 0 {
				e.R.Traces++
			}
			continue
		}
		e.Seen[k] = int8(remaining - 1)
		e.rec(next, l2, remaining-1, level+1, tr)
	}
}

// DumpHashes writes visited-state prefixes for cross-shard union counting.
func (e *Explorer[O, L]) DumpHashes() {
	s := NewSeen()
	for k := range e.Seen {
		var h [32]byte
		copy(h[:], k[:])
		s.Add(h)
	}
	s.Dump(e.F.HashOut)
}

func Fmt(format string, a ...interface{}) string { return fmt.Sprintf(format, a...) }
