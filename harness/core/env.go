// Package core is the shared part of the ledger explorers (engine A): a deterministic
// OsmosisApp instance, state branching by CacheContext, message delivery as the chain delivers
// it, block boundaries, canonical state hashing and the shard-result format consumed by bin/run.
package core

import (
	"crypto/sha256"
	"encoding/binary"
	"encoding/json"
	"fmt"
	"os"
	"sort"
	"time"

	"cosmossdk.io/log"
	sdkmath "cosmossdk.io/math"
	storetypes "cosmossdk.io/store/types"
	abci "github.com/cometbft/cometbft/abci/types"
	"github.com/cometbft/cometbft/crypto/ed25519"
	cmtproto "github.com/cometbft/cometbft/proto/tendermint/types"
	tmtypes "github.com/cometbft/cometbft/types"
	cosmosdb "github.com/cosmos/cosmos-db"
	"github.com/cosmos/cosmos-sdk/baseapp"
	codectypes "github.com/cosmos/cosmos-sdk/codec/types"
	cryptocodec "github.com/cosmos/cosmos-sdk/crypto/codec"
	sims "github.com/cosmos/cosmos-sdk/testutil/sims"
	sdk "github.com/cosmos/cosmos-sdk/types"
	authtypes "github.com/cosmos/cosmos-sdk/x/auth/types"
	banktypes "github.com/cosmos/cosmos-sdk/x/bank/types"
	slashingtypes "github.com/cosmos/cosmos-sdk/x/slashing/types"
	stakingtypes "github.com/cosmos/cosmos-sdk/x/staking/types"

	"github.com/osmosis-labs/osmosis/osmomath"
	"github.com/osmosis-labs/osmosis/v31/app"
)

// GenesisTime is the fixed block time of every scenario's first block.
var GenesisTime = time.Date(2024, 1, 1, 0, 0, 0, 0, time.UTC)

const ChainID = "osmosis-1"

// Acc returns the deterministic address of a named harness account.
func Acc(name string) sdk.AccAddress {
	h := sha256.Sum256([]byte("verif-account-" + name))
	return sdk.AccAddress(h[:20])
}

// GenesisOpts lets a scenario adjust the genesis before InitChain.
type GenesisOpts struct {
	// Balances funded at genesis (name -> coins).
	Balances map[string]sdk.Coins
	// Mutate is applied to the complete genesis state (module name -> raw JSON) last.
	Mutate func(a *app.OsmosisApp, gs app.GenesisState)
	// NumValidators (default 1).
	NumValidators int
}

type Env struct {
	App  *app.OsmosisApp
	Ctx  sdk.Context // base context over the app's finalize-block state; never written after setup
	Vals []sdk.ValAddress
	home string
}

func valKey(i int) ed25519.PrivKey {
	h := sha256.Sum256([]byte(fmt.Sprintf("verif-validator-%d", i)))
	return ed25519.GenPrivKeyFromSecret(h[:])
}

// NewBlankApp builds an app without genesis.
func NewBlankApp() (*app.OsmosisApp, string) {
	return NewBlankAppOpts(false)
}

type appOpts struct{ skipGenesisInvariants bool }

func (o appOpts) Get(k string) interface{} {
	if k == "x-crisis-skip-assert-invariants" {
		return o.skipGenesisInvariants
	}
	return nil
}

// NewBlankAppOpts builds an app without genesis; skipGenesisInvariants is the operator flag
// --x-crisis-skip-assert-invariants.
func NewBlankAppOpts(skipGenesisInvariants bool) (*app.OsmosisApp, string) {
	dir, err := os.MkdirTemp("", "verif-home")
	if err != nil {
		panic(err)
	}
	a := app.NewOsmosisApp(log.NewNopLogger(), cosmosdb.NewMemDB(), nil, true, map[int64]bool{}, dir, 0,
		appOpts{skipGenesisInvariants}, app.EmptyWasmOpts, baseapp.SetChainID(ChainID))
	return a, dir
}

// BuildGenesis returns the deterministic genesis for the options.
func BuildGenesis(a *app.OsmosisApp, o GenesisOpts) (app.GenesisState, []sdk.ValAddress) {
	gs := app.NewDefaultGenesisState()
	nv := o.NumValidators
	if nv == 0 {
		nv = 1
	}
	genAcc := authtypes.NewBaseAccountWithAddress(Acc("genesis-delegator"))
	accs := []authtypes.GenesisAccount{genAcc}
	names := make([]string, 0, len(o.Balances))
	for n := range o.Balances {
		names = append(names, n)
	}
	sort.Strings(names)
	balances := []banktypes.Balance{}
	total := sdk.NewCoins()
	for _, n := range names {
		accs = append(accs, authtypes.NewBaseAccountWithAddress(Acc(n)))
		balances = append(balances, banktypes.Balance{Address: Acc(n).String(), Coins: o.Balances[n].Sort()})
		total = total.Add(o.Balances[n]...)
	}
	gs[authtypes.ModuleName] = a.AppCodec().MustMarshalJSON(authtypes.NewGenesisState(authtypes.DefaultParams(), accs))

	bondAmt := sdk.DefaultPowerReduction
	var validators []stakingtypes.Validator
	var delegations []stakingtypes.Delegation
	var valAddrs []sdk.ValAddress
	var tmVals []*tmtypes.Validator
	for i := 0; i < nv; i++ {
		pub := valKey(i).PubKey()
		tmVals = append(tmVals, tmtypes.NewValidator(pub, 1))
	}
	for _, val := range tmVals {
		pk, _ := cryptocodec.FromCmtPubKeyInterface(val.PubKey)
		pkAny, _ := codectypes.NewAnyWithValue(pk)
		va := sdk.ValAddress(val.Address)
		valAddrs = append(valAddrs, va)
		validators = append(validators, stakingtypes.Validator{
			OperatorAddress: va.String(), ConsensusPubkey: pkAny, Status: stakingtypes.Bonded,
			Tokens: bondAmt, DelegatorShares: osmomath.OneDec().MulInt(bondAmt),
			Description: stakingtypes.Description{}, UnbondingTime: time.Unix(0, 0).UTC(),
			Commission:        stakingtypes.NewCommission(osmomath.ZeroDec(), osmomath.ZeroDec(), osmomath.ZeroDec()),
			MinSelfDelegation: sdkmath.ZeroInt(),
		})
		delegations = append(delegations, stakingtypes.NewDelegation(genAcc.GetAddress().String(), va.String(), osmomath.OneDec().MulInt(bondAmt)))
		total = total.Add(sdk.NewCoin(sdk.DefaultBondDenom, bondAmt))
	}
	gs[stakingtypes.ModuleName] = a.AppCodec().MustMarshalJSON(stakingtypes.NewGenesisState(stakingtypes.DefaultParams(), validators, delegations))
	balances = append(balances, banktypes.Balance{
		Address: authtypes.NewModuleAddress(stakingtypes.BondedPoolName).String(),
		Coins:   sdk.Coins{sdk.NewCoin(sdk.DefaultBondDenom, bondAmt.MulRaw(int64(nv)))},
	})
	gs[banktypes.ModuleName] = a.AppCodec().MustMarshalJSON(banktypes.NewGenesisState(
		banktypes.DefaultGenesisState().Params, balances, total, []banktypes.Metadata{}, []banktypes.SendEnabled{}))
	if o.Mutate != nil {
		o.Mutate(a, gs)
	}
	return gs, valAddrs
}

// NewEnv builds a fresh application with the deterministic genesis.
func NewEnv(o GenesisOpts) *Env {
	a, dir := NewBlankApp()
	gs, vals := BuildGenesis(a, o)
	bz, err := json.Marshal(gs)
	if err != nil {
		panic(err)
	}
	if _, err := a.InitChain(&abci.RequestInitChain{
		Validators: []abci.ValidatorUpdate{}, ConsensusParams: sims.DefaultConsensusParams,
		AppStateBytes: bz, ChainId: ChainID, Time: GenesisTime, InitialHeight: 1,
	}); err != nil {
		panic(err)
	}
	ctx := a.BaseApp.NewContextLegacy(false, cmtproto.Header{Height: 1, ChainID: ChainID, Time: GenesisTime})
	ctx = ctx.WithGasMeter(storetypes.NewInfiniteGasMeter()).WithBlockGasMeter(storetypes.NewInfiniteGasMeter())
	e := &Env{App: a, Ctx: ctx, Vals: vals, home: dir}
	// Epochs: start every timer at genesis time (as the repository's own test helper does).
	for _, ep := range a.EpochsKeeper.AllEpochInfos(ctx) {
		ep.StartTime = ctx.BlockTime()
		a.EpochsKeeper.DeleteEpochInfo(ctx, ep.Identifier)
		if err := a.EpochsKeeper.AddEpochInfo(ctx, ep); err != nil {
			panic(err)
		}
	}
	vs, err := a.StakingKeeper.GetAllValidators(ctx)
	if err != nil {
		panic(err)
	}
	for _, v := range vs {
		cons, _ := v.GetConsAddr()
		if err := a.SlashingKeeper.SetValidatorSigningInfo(ctx, cons,
			slashingtypes.NewValidatorSigningInfo(cons, ctx.BlockHeight(), time.Unix(0, 0), false, 0)); err != nil {
			panic(err)
		}
	}
	return e
}

func (e *Env) Close() { os.RemoveAll(e.home) }

// Branch returns a child context whose writes are invisible to the parent until write() is called.
func Branch(ctx sdk.Context) (sdk.Context, func()) {
	c, w := ctx.CacheContext()
	return c, w
}

// MsgResult is what a delivered message produced.
type MsgResult struct {
	Res      *sdk.Result
	Err      error
	Panicked bool
}

func (r MsgResult) OK() bool { return r.Err == nil }

// Deliver runs one message as the chain would inside a transaction: ValidateBasic (if the type has
// one), the registered handler on a child branch; the branch is written back only on success.
// Panics are recovered as baseapp.runTx does and count as a failed message.
func Deliver(a *app.OsmosisApp, ctx sdk.Context, msg sdk.Msg) (out MsgResult) {
	if vb, ok := msg.(sdk.HasValidateBasic); ok {
		if err := vb.ValidateBasic(); err != nil {
			return MsgResult{Err: fmt.Errorf("validate-basic: %w", err)}
		}
	}
	h := a.GetBaseApp().MsgServiceRouter().Handler(msg)
	if h == nil {
		panic(fmt.Sprintf("harness: no handler for %T", msg))
	}
	child, write := ctx.CacheContext()
	child = child.WithEventManager(sdk.NewEventManager())
	defer func() {
		if r := recover(); r != nil {
			out = MsgResult{Err: fmt.Errorf("panic: %v", r), Panicked: true}
		}
	}()
	res, err := h(child, msg)
	if err != nil {
		return MsgResult{Err: err}
	}
	write()
	return MsgResult{Res: res}
}

// DeliverTx runs several messages atomically: all or nothing.
func DeliverTx(a *app.OsmosisApp, ctx sdk.Context, msgs ...sdk.Msg) []MsgResult {
	child, write := ctx.CacheContext()
	out := make([]MsgResult, 0, len(msgs))
	for _, m := range msgs {
		r := Deliver(a, child, m)
		out = append(out, r)
		if !r.OK() {
			return out
		}
	}
	write()
	return out
}

// NextBlock ends the current block, clears the transient stores (what Commit does), and begins the
// next one dt later. It returns the context of the new block (same underlying store branch).
func NextBlock(a *app.OsmosisApp, ctx sdk.Context, dt time.Duration) (sdk.Context, error) {
	ctx = ctx.WithEventManager(sdk.NewEventManager())
	if _, err := a.EndBlocker(ctx); err != nil {
		return ctx, fmt.Errorf("endblock: %w", err)
	}
	ClearTransient(a, ctx)
	h := ctx.BlockHeader()
	h.Height++
	h.Time = h.Time.Add(dt)
	ctx = ctx.WithBlockHeader(h).WithEventManager(sdk.NewEventManager())
	if _, err := a.BeginBlocker(ctx); err != nil {
		return ctx, fmt.Errorf("beginblock: %w", err)
	}
	return ctx, nil
}

// ClearTransient deletes every key of every transient store visible from ctx.
func ClearTransient(a *app.OsmosisApp, ctx sdk.Context) {
	for _, k := range a.GetTransientStoreKey() {
		st := ctx.TransientStore(k)
		it := st.Iterator(nil, nil)
		var keys [][]byte
		for ; it.Valid(); it.Next() {
			keys = append(keys, append([]byte{}, it.Key()...))
		}
		it.Close()
		for _, kk := range keys {
			st.Delete(kk)
		}
	}
}

// StoreNames returns the sorted names of all persistent KV stores.
func StoreNames(a *app.OsmosisApp) []string {
	var n []string
	for k := range a.GetKVStoreKey() {
		n = append(n, k)
	}
	sort.Strings(n)
	return n
}

// StateHash hashes the complete content of the named KV stores (all when names is nil) plus block
// height and time.
func StateHash(a *app.OsmosisApp, ctx sdk.Context, names []string) [32]byte {
	if names == nil {
		names = StoreNames(a)
	}
	keys := a.GetKVStoreKey()
	h := sha256.New()
	var lb [8]byte
	for _, n := range names {
		k, ok := keys[n]
		if !ok {
			panic("harness: unknown store " + n)
		}
		h.Write([]byte(n))
		it := ctx.KVStore(k).Iterator(nil, nil)
		for ; it.Valid(); it.Next() {
			binary.BigEndian.PutUint64(lb[:], uint64(len(it.Key())))
			h.Write(lb[:])
			h.Write(it.Key())
			binary.BigEndian.PutUint64(lb[:], uint64(len(it.Value())))
			h.Write(lb[:])
			h.Write(it.Value())
		}
		it.Close()
	}
	binary.BigEndian.PutUint64(lb[:], uint64(ctx.BlockHeight()))
	h.Write(lb[:])
	binary.BigEndian.PutUint64(lb[:], uint64(ctx.BlockTime().UnixNano()))
	h.Write(lb[:])
	var out [32]byte
	copy(out[:], h.Sum(nil))
	return out
}

// ResetCaches re-derives keeper-level in-memory caches after backtracking to ctx.
func ResetCaches(a *app.OsmosisApp, ctx sdk.Context) {
	a.PoolManagerKeeper.ResetCaches()
}

// Coins is a small helper.
func Coins(kv ...interface{}) sdk.Coins {
	c := sdk.NewCoins()
	for i := 0; i+1 < len(kv); i += 2 {
		var amt sdkmath.Int
		switch v := kv[i+1].(type) {
		case int:
			amt = sdkmath.NewInt(int64(v))
		case int64:
			amt = sdkmath.NewInt(v)
		case sdkmath.Int:
			amt = v
		case string:
			x, ok := sdkmath.NewIntFromString(v)
			if !ok {
				panic("bad int " + v)
			}
			amt = x
		}
		c = c.Add(sdk.NewCoin(kv[i].(string), amt))
	}
	return c
}

// Try runs f and converts a panic into an error (queries of a corrupted state may panic; that is a
// finding about the state, not a harness failure).
func Try(f func() error) (err error) {
	defer func() {
		if r := recover(); r != nil {
			err = fmt.Errorf("panic: %v", r)
		}
	}()
	return f()
}

// EndBlock ends the current block (EndBlocker + clearing the transient stores, which is what Commit does).
func EndBlock(a *app.OsmosisApp, ctx sdk.Context) (sdk.Context, sdk.EndBlock, error) {
	ctx = ctx.WithEventManager(sdk.NewEventManager())
	eb, err := a.EndBlocker(ctx)
	if err != nil {
		return ctx, eb, err
	}
	ClearTransient(a, ctx)
	return ctx, eb, nil
}

// BeginBlock starts the next block dt later on the same store branch.
func BeginBlock(a *app.OsmosisApp, ctx sdk.Context, dt time.Duration) (sdk.Context, sdk.BeginBlock, error) {
	h := ctx.BlockHeader()
	h.Height++
	h.Time = h.Time.Add(dt)
	ctx = ctx.WithBlockHeader(h).WithEventManager(sdk.NewEventManager())
	bb, err := a.BeginBlocker(ctx)
	return ctx, bb, err
}

// ImportNode builds a fresh application from an exported genesis (module name -> raw JSON), as a
// node restarted from `osmosisd export` would: InitChain at the block time of the export with
// initial height = exported height + 1. The returned context is positioned at the exported height
// (the next BeginBlock moves to height+1), like the exporting node's.
func ImportNode(gs map[string]json.RawMessage, height int64, t time.Time) (*Env, error) {
	return ImportNodeOpts(gs, height, t, false)
}

// ImportNodeOpts is ImportNode with the operator's skip-genesis-invariants flag.
func ImportNodeOpts(gs map[string]json.RawMessage, height int64, t time.Time, skipGenesisInvariants bool) (*Env, error) {
	a, dir := NewBlankAppOpts(skipGenesisInvariants)
	bz, err := json.Marshal(gs)
	if err != nil {
		return nil, err
	}
	var ierr error
	func() {
		defer func() {
			if r := recover(); r != nil {
				ierr = fmt.Errorf("panic in InitChain: %v", r)
			}
		}()
		_, ierr = a.InitChain(&abci.RequestInitChain{
			Validators: []abci.ValidatorUpdate{}, ConsensusParams: sims.DefaultConsensusParams,
			AppStateBytes: bz, ChainId: ChainID, Time: t, InitialHeight: height,
		})
	}()
	if ierr != nil {
		os.RemoveAll(dir)
		return nil, ierr
	}
	ctx := a.BaseApp.NewContextLegacy(false, cmtproto.Header{Height: height, ChainID: ChainID, Time: t})
	ctx = ctx.WithGasMeter(storetypes.NewInfiniteGasMeter()).WithBlockGasMeter(storetypes.NewInfiniteGasMeter())
	return &Env{App: a, Ctx: ctx, home: dir}, nil
}

// ValAddr is the operator address of the i-th deterministic genesis validator.
func ValAddr(i int) sdk.ValAddress {
	return sdk.ValAddress(valKey(i).PubKey().Address())
}
