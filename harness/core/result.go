package core

import (
	"encoding/binary"
	"encoding/json"
	"flag"
	"fmt"
	"os"
	"sort"
	"time"
)

// Violation is one failed assertion with everything needed to replay it.
type Violation struct {
	Property  string      `json:"property"`
	Assertion string      `json:"assertion"` // stable id of the oracle that failed
	Signature string      `json:"signature"` // normalised minimal form, matched against known_findings.json
	Detail    string      `json:"detail"`
	Replay    interface{} `json:"replay"` // scenario/config/op list
}

// Result is what one shard of one check reports to bin/run on stdout (single JSON line prefixed
// by "RESULT ").
type Result struct {
	Property       string                 `json:"property"`
	States         int64                  `json:"states"`
	Transitions    int64                  `json:"transitions"`
	Traces         int64                  `json:"traces"`
	Rejected       map[string]int64       `json:"rejected,omitempty"`
	Vacuity        map[string]int64       `json:"vacuity,omitempty"`
	Samples        []interface{}          `json:"samples,omitempty"`
	Violations     []Violation            `json:"violations,omitempty"`
	Exhaustive     bool                   `json:"exhaustive"`
	DepthCompleted int                    `json:"depth_completed"`
	Outcomes       int64                  `json:"distinct_outcomes"`
	Extra          map[string]interface{} `json:"extra,omitempty"`
	HashFile       string                 `json:"hash_file,omitempty"`
	WallS          float64                `json:"wall_s"`
}

func NewResult(prop string) *Result {
	return &Result{Property: prop, Rejected: map[string]int64{}, Vacuity: map[string]int64{}, Extra: map[string]interface{}{}, Exhaustive: true}
}

const maxViolationsKept = 50

func (r *Result) AddViolation(v Violation) {
	for _, o := range r.Violations {
		if o.Assertion == v.Assertion && o.Signature == v.Signature {
			return
		}
	}
	if len(r.Violations) < maxViolationsKept {
		r.Violations = append(r.Violations, v)
	}
}

func (r *Result) AddSample(s interface{}) {
	if len(r.Samples) < 6 {
		r.Samples = append(r.Samples, s)
	}
}

// Emit prints the result for bin/run.
func (r *Result) Emit() {
	bz, err := json.Marshal(r)
	if err != nil {
		panic(err)
	}
	fmt.Printf("RESULT %s\n", bz)
}

// Common command line of every harness binary.
type Flags struct {
	Prop     string
	Tier     string
	Shard    int
	NShards  int
	Seed     int64
	Replay   string
	HashOut  string
	Deadline time.Duration
	Start    time.Time
}

func ParseFlags() *Flags {
	f := &Flags{Start: time.Now()}
	flag.StringVar(&f.Prop, "prop", "", "property id")
	flag.StringVar(&f.Tier, "tier", "quick", "quick|thorough")
	flag.IntVar(&f.Shard, "shard", 0, "shard index")
	flag.IntVar(&f.NShards, "nshards", 1, "number of shards")
	flag.Int64Var(&f.Seed, "seed", 0, "VERIF_SEED (rotates shard order only)")
	flag.StringVar(&f.Replay, "replay", "", "replay file")
	flag.StringVar(&f.HashOut, "hashout", "", "file receiving 8-byte prefixes of visited state hashes")
	flag.DurationVar(&f.Deadline, "deadline", 0, "internal deadline (0 = none)")
	flag.Parse()
	return f
}

func (f *Flags) Expired() bool {
	return f.Deadline > 0 && time.Since(f.Start) > f.Deadline
}

// Mine reports whether work item i belongs to this shard.
func (f *Flags) Mine(i int) bool {
	return (i+int(f.Seed%int64(f.NShards))+f.NShards)%f.NShards == f.Shard
}

// Seen is a visited set keyed by the canonical state hash.
type Seen struct {
	m map[[16]byte]struct{}
}

func NewSeen() *Seen { return &Seen{m: map[[16]byte]struct{}{}} }

// Add returns true if h was new.
func (s *Seen) Add(h [32]byte) bool {
	var k [16]byte
	copy(k[:], h[:16])
	if _, ok := s.m[k]; ok {
		return false
	}
	s.m[k] = struct{}{}
	return true
}

func (s *Seen) Len() int { return len(s.m) }

// Dump writes 8-byte prefixes (enough for union counting across shards).
func (s *Seen) Dump(path string) {
	if path == "" {
		return
	}
	ks := make([]uint64, 0, len(s.m))
	for k := range s.m {
		ks = append(ks, binary.BigEndian.Uint64(k[:8]))
	}
	sort.Slice(ks, func(i, j int) bool { return ks[i] < ks[j] })
	buf := make([]byte, 8*len(ks))
	for i, k := range ks {
		binary.BigEndian.PutUint64(buf[8*i:], k)
	}
	if err := os.WriteFile(path, buf, 0o644); err != nil {
		panic(err)
	}
}

// ReadReplay loads a replay artefact.
func ReadReplay(path string, into interface{}) {
	bz, err := os.ReadFile(path)
	if err != nil {
		fmt.Fprintln(os.Stderr, "harness: cannot read replay:", err)
		os.Exit(2)
	}
	var wrap struct {
		Replay json.RawMessage `json:"replay"`
	}
	if err := json.Unmarshal(bz, &wrap); err != nil || wrap.Replay == nil {
		fmt.Fprintln(os.Stderr, "harness: bad replay file:", err)
		os.Exit(2)
	}
	if err := json.Unmarshal(wrap.Replay, into); err != nil {
		fmt.Fprintln(os.Stderr, "harness: bad replay payload:", err)
		os.Exit(2)
	}
}

// Finish stamps the wall time and emits.
func Finish(f *Flags, r *Result) {
	r.WallS = time.Since(f.Start).Seconds()
	r.Emit()
}
