package main

import (
	"crypto/sha256"
	"encoding/binary"
	"fmt"
	"math/big"
	"strings"
	"time"

	sdkmath "cosmossdk.io/math"
	"cosmossdk.io/store/prefix"
	sdk "github.com/cosmos/cosmos-sdk/types"
	authtypes "github.com/cosmos/cosmos-sdk/x/auth/types"
	banktypes "github.com/cosmos/cosmos-sdk/x/bank/types"
	distrtypes "github.com/cosmos/cosmos-sdk/x/distribution/types"
	stakingtypes "github.com/cosmos/cosmos-sdk/x/staking/types"
	"github.com/cosmos/gogoproto/proto"

	"github.com/osmosis-labs/osmosis/osmomath"
	"github.com/osmosis-labs/osmosis/v31/app"
	clmodel "github.com/osmosis-labs/osmosis/v31/x/concentrated-liquidity/model"
	cltypes "github.com/osmosis-labs/osmosis/v31/x/concentrated-liquidity/types"
	"github.com/osmosis-labs/osmosis/v31/x/gamm/pool-models/balancer"
	inctypes "github.com/osmosis-labs/osmosis/v31/x/incentives/types"
	lockuptypes "github.com/osmosis-labs/osmosis/v31/x/lockup/types"
	pitypes "github.com/osmosis-labs/osmosis/v31/x/pool-incentives/types"
	pmtypes "github.com/osmosis-labs/osmosis/v31/x/poolmanager/types"
	protorevtypes "github.com/osmosis-labs/osmosis/v31/x/protorev/types"
	txfeestypes "github.com/osmosis-labs/osmosis/v31/x/txfees/types"

	"github.com/osmosis-labs/osmosis/v31/zzverif/core"
)

// Denominations of the scenario.
const (
	LP    = "lptok" // the lock denom (plain bank denom)
	Uosmo = "uosmo" // reward denom 0: the denom of MinValueForDistribution
	R1    = "rwd1"  // reward denom 1: valued through its protorev route pool
	R2    = "rwd2"  // reward denom 2: has a route when gauges are created; the route is removed in seed S4
)

// Denoms indexes the reward denominations of the ledger's amount vectors.
var Denoms = [3]string{Uosmo, R1, R2}

func denomIdx(d string) int {
	for i, x := range Denoms {
		if x == d {
			return i
		}
	}
	return -1
}

// Amt is a vector of reward amounts indexed like Denoms.
type Amt [3]int64

func (a Amt) Coins() sdk.Coins {
	c := sdk.NewCoins()
	for i, v := range a {
		if v > 0 {
			c = c.Add(sdk.NewCoin(Denoms[i], sdkmath.NewInt(v)))
		}
	}
	return c
}

func (a Amt) Add(b Amt) Amt { return Amt{a[0] + b[0], a[1] + b[1], a[2] + b[2]} }
func (a Amt) Sub(b Amt) Amt { return Amt{a[0] - b[0], a[1] - b[1], a[2] - b[2]} }
func (a Amt) IsZero() bool  { return a == Amt{} }
func (a Amt) String() string {
	if a.IsZero() {
		return "0"
	}
	return a.Coins().String()
}

func amtOf(c sdk.Coins) (Amt, bool) {
	var a Amt
	ok := true
	for _, x := range c {
		i := denomIdx(x.Denom)
		if i < 0 || !x.Amount.IsInt64() {
			ok = false
			continue
		}
		a[i] = x.Amount.Int64()
	}
	return a, ok
}

// The lockable durations of the scenario (incentives and pool-incentives genesis).
var Durations = []time.Duration{time.Hour, 2 * time.Hour, 24 * time.Hour}

const (
	EpochID   = "hour" // x/epochs default genesis has it (1 h); incentives' DistrEpochIdentifier is pointed at it
	EpochDur  = time.Hour
	EpochStep = EpochDur + time.Second // block step of the `epoch` symbol: slightly more than one epoch
	TickStep  = time.Minute            // block step of the `tick` symbol: no epoch boundary
	FutureLag = 90 * time.Minute       // "future" start: not reached by the next epoch block, reached by the one after
)

// Config is one configuration of the world.
type Config struct {
	Name      string `json:"name"`
	MinValue  int64  `json:"min_value_uosmo"`   // incentives param MinValueForDistribution (in uosmo)
	PoolUosmo int64  `json:"r1_pool_uosmo"`     // reserves of the r1 route pool
	PoolR1    int64  `json:"r1_pool_r1"`        //
	R2Pool    int64  `json:"r2_pool_each_side"` // the r2 route pool is 1:1
	// CL: the world additionally has a concentrated-liquidity pool uosmo/rwd1 (one full-range position of P) and a
	// second balancer pool uosmo/rwd1 that is only there to be swapped on (pool volume); the symbols clgauge,
	// swap, group, kgroup and alloc need it. The two route pools are never swapped on, so the valuation
	// thresholds stay what they are in the plain worlds.
	CL bool `json:"cl,omitempty"`
}

func (c Config) String() string {
	cl := ""
	if c.CL {
		cl = " +clpool +volpool"
	}
	return fmt.Sprintf("%s(min=%duosmo r1pool=%d:%d r2pool=%d:%d%s)", c.Name, c.MinValue, c.PoolUosmo, c.PoolR1, c.R2Pool, c.R2Pool, cl)
}

// The coins alphabet of gauge creation and top-ups.
var GaugeCoins = []Amt{
	{1000, 0, 0},  // 0
	{0, 777, 0},   // 1
	{500, 300, 0}, // 2
	{400, 0, 500}, // 3 (seed S4 only: r2)
	{1000, 2, 0},  // 4 (NoLock alphabets: a second denom of which there is less than one unit per epoch when n = 3)
}
var AddCoins = []Amt{
	{200, 0, 0}, // 0
	{0, 50, 0},  // 1
}

// Op is one symbol of the alphabet. All operands are literal or indexes into the ledger (creation order).
type Op struct {
	K    string `json:"k"`              // gauge add lock unlock punlock setrr epoch tick | CL worlds: clgauge swap group kgroup alloc
	A    string `json:"a,omitempty"`    // acting account (gauge, add, lock)
	Perp bool   `json:"perp,omitempty"` // gauge
	Dur  int64  `json:"dur,omitempty"`  // gauge / lock duration (ns)
	C    int    `json:"c,omitempty"`    // gauge: index into GaugeCoins ; add: index into AddCoins
	Fut  bool   `json:"fut,omitempty"`  // gauge: start = now + FutureLag (else now)
	Tie  bool   `json:"tie,omitempty"`  // gauge: start = now + EpochStep: if the next symbol is `epoch`, the start time equals the block time of the epoch-end block to the nanosecond
	N    uint64 `json:"n,omitempty"`    // gauge: epochs paid over
	G    int    `json:"g,omitempty"`    // add: gauge index in the ledger
	L    int    `json:"l,omitempty"`    // unlock / punlock / setrr: lock index in the ledger
	Amt  int64  `json:"amt,omitempty"`  // lock / punlock amount
	To   string `json:"to,omitempty"`   // setrr: account name
	P    int    `json:"p,omitempty"`    // swap: 0 = the concentrated pool, 1 = the volume (balancer) pool
}

func (o Op) String() string {
	switch o.K {
	case "gauge":
		if o.Tie {
			return fmt.Sprintf("gauge{%s perp=%v >=%s %s start=now+epoch-step n=%d}", o.A, o.Perp, time.Duration(o.Dur), GaugeCoins[o.C], o.N)
		}
		return fmt.Sprintf("gauge{%s perp=%v >=%s %s fut=%v n=%d}", o.A, o.Perp, time.Duration(o.Dur), GaugeCoins[o.C], o.Fut, o.N)
	case "add":
		return fmt.Sprintf("add{%s g#%d %s}", o.A, o.G, AddCoins[o.C])
	case "lock":
		return fmt.Sprintf("lock{%s %d%s %s}", o.A, o.Amt, LP, time.Duration(o.Dur))
	case "unlock":
		return fmt.Sprintf("unlock{l#%d}", o.L)
	case "punlock":
		return fmt.Sprintf("punlock{l#%d %d}", o.L, o.Amt)
	case "setrr":
		return fmt.Sprintf("setrr{l#%d -> %s}", o.L, o.To)
	case "extend":
		return fmt.Sprintf("extend{l#%d to 24h}", o.L)
	case "clgauge":
		return fmt.Sprintf("clgauge{%s perp=%v nolock->clpool %s fut=%v n=%d}", o.A, o.Perp, GaugeCoins[o.C], o.Fut, o.N)
	case "swap":
		return fmt.Sprintf("swap{P %duosmo in on %s}", o.Amt, []string{"clpool", "volpool"}[o.P])
	case "group":
		return fmt.Sprintf("group{%s perpetual %s pools=clpool,volpool}", o.A, GaugeCoins[o.C])
	case "kgroup":
		return fmt.Sprintf("kgroup{keeper-level CreateGroup %s n=%d %s pools=clpool,volpool}", o.A, o.N, GaugeCoins[o.C])
	case "alloc":
		return fmt.Sprintf("alloc{keeper-level: %duosmo into pool-incentives, AllocateAsset}", o.Amt)
	}
	return o.K
}

const (
	StUpcoming = 0
	StActive   = 1
	StFinished = 2
)

var stName = []string{"upcoming", "active", "finished"}

// Gauge is the reference ledger's record of one gauge. Built from requests, the id counter and the
// reference distribution rule; never copied from the module's gauge record (except after a reported
// divergence, to avoid cascades — see resync).
type Gauge struct {
	ID     uint64
	Perp   bool
	Dur    time.Duration
	Start  time.Time
	N      uint64
	Coins  Amt
	Dist   Amt
	Status int
	Filled uint64 // epochs since activation in which the gauge had >= 1 qualifying lock
	Empty  int    // epochs since activation in which it had none (F-9: observed, not judged)
	Paid   int    // epochs in which it actually paid a positive amount
	Early  bool   // observed in the finished index with Filled < N (only possible after an empty epoch)
	Fut    bool   // created with a start time in the future

	// CL worlds only (zero values = a lock-based gauge on lptok created by a ledger symbol)
	Kind     int    // KLock, KNoLock, KGroup
	LockDen  string // KLock: the lock denom when it is not lptok (the internal gauge of the volume pool)
	Internal bool   // created by pool creation, not by a symbol of the history
	Gone     bool   // KGroup: the record was deleted when the (non-perpetual) group finished
}

const (
	KLock   = 0
	KNoLock = 1 // pays the concentrated pool's incentive address
	KGroup  = 2 // pays its member gauges (no lifecycle index)
)

var kindName = []string{"lock", "nolock", "group"}

// Group is the ledger's record of one group: which ledger gauges are its members and, for the OBSERVED
// (not judged) split, the weights = pool volume since the last successful weight sync.
type Group struct {
	G       int // index of the group gauge in Ledger.Gauges
	Members []int
	Pools   []uint64
	W, Snap []int64
}

func (g Gauge) Remaining() Amt { return g.Coins.Sub(g.Dist) }

// Lock is the reference record of one live lock (requests and responses only).
type Lock struct {
	ID    uint64
	Owner string
	Dur   time.Duration
	Amt   int64
	Recv  string    // "" = owner
	End   time.Time // zero: not unlocking
}

func (l Lock) Unlocking() bool { return !l.End.IsZero() }
func (l Lock) Receiver() string {
	if l.Recv == "" {
		return l.Owner
	}
	return l.Recv
}

// Ledger is the reference state.
type Ledger struct {
	Gauges  []Gauge
	Locks   []Lock
	Groups  []Group
	Epochs  int   // distribution epochs observed so far
	NoR2    bool  // the r2 route has been removed (seed S4's keeper-level step)
	Fees    int64 // fees the ledger expects to have gone to the community pool
	Diverge int   // number of reported divergences after which the ledger was re-synchronised
	Steps   int   // ops applied since the seed state (only used to keep the shortest instance of a classed divergence)
}

func (l *Ledger) Clone() *Ledger {
	n := *l
	n.Gauges = append([]Gauge{}, l.Gauges...)
	n.Locks = append([]Lock{}, l.Locks...)
	if len(l.Groups) > 0 {
		n.Groups = make([]Group, len(l.Groups))
		for i, g := range l.Groups {
			g.W = append([]int64{}, g.W...)
			g.Snap = append([]int64{}, g.Snap...)
			n.Groups[i] = g
		}
	}
	return &n
}

// Key digests everything in the ledger that is not a function of the stores.
func (l *Ledger) Key() []byte {
	h := sha256.New()
	var b [8]byte
	put := func(v uint64) { binary.BigEndian.PutUint64(b[:], v); h.Write(b[:]) }
	for _, g := range l.Gauges {
		put(g.ID)
		put(uint64(g.Status))
		put(g.Filled)
		put(uint64(g.Empty))
		put(uint64(g.Paid))
		for i := range g.Coins {
			put(uint64(g.Coins[i]))
			put(uint64(g.Dist[i]))
		}
		if g.Early {
			put(1)
		}
		if g.Gone {
			put(2)
		}
	}
	h.Write([]byte("|"))
	for _, k := range l.Locks {
		put(k.ID)
		put(uint64(k.Amt))
		h.Write([]byte(k.Owner + "|" + k.Recv + "|"))
		if k.Unlocking() {
			put(uint64(k.End.UnixNano()))
		}
	}
	put(uint64(l.Epochs))
	put(uint64(l.Fees))
	put(uint64(l.Diverge))
	return h.Sum(nil)[:16]
}

// World is one configured application instance.
type World struct {
	Env   *core.Env
	App   *app.OsmosisApp
	Cfg   Config
	Base  sdk.Context // after setup: pools created, epoch counting started
	R     *core.Result
	Debug bool // replay mode: extra diagnostics on stdout
	best  map[string]int

	IncAddr, LockAddr, DistrAddr sdk.AccAddress
	// Min[i]: the smallest amount of Denoms[i] that is worth the configured minimum, as the module's
	// documented valuation defines it (what MinValueForDistribution buys in the route pool at zero
	// spread; 0 when it buys less than one unit, i.e. every positive amount is worth more).
	Min [3]int64

	// CL worlds
	CLPool, VolPool         uint64
	CLIncAddr, PIAddr       sdk.AccAddress
	CLInternal, VolInternal uint64    // ids of the internal gauges that pool creation made (group members)
	PoolsAt                 time.Time // block time at which the pools (and their internal gauges) were created
	Tracked                 []string  // accounts whose balance deltas are compared with the reference at every block
}

// ClInc names the concentrated pool's incentive address in the tracked-account tables.
const ClInc = "clpool-incentives"

func (w *World) addr(name string) sdk.AccAddress {
	if name == ClInc {
		return w.CLIncAddr
	}
	return core.Acc(name)
}

var stores = []string{"incentives", "lockup", "bank", "acc", "epochs", "distribution", "protorev", "gamm", "poolincentives", "poolmanager"}

var storesCL = append(append([]string{}, stores...), "concentratedliquidity")

var Accounts = []string{"A", "B", "R"}

func NewWorld(cfg Config, r *core.Result) *World {
	user := core.Coins(LP, 1000000, Uosmo, "1000000000000", R1, 1000000000, R2, 1000000000)
	pooler := core.Coins(Uosmo, "100000000000000", R1, "100000000000000", R2, "100000000000000")
	env := core.NewEnv(core.GenesisOpts{
		Balances: map[string]sdk.Coins{"A": user, "B": user, "P": pooler},
		Mutate: func(a *app.OsmosisApp, gs app.GenesisState) {
			var ig inctypes.GenesisState
			a.AppCodec().MustUnmarshalJSON(gs[inctypes.ModuleName], &ig)
			ig.Params.DistrEpochIdentifier = EpochID
			ig.Params.MinValueForDistribution = sdk.NewCoin(Uosmo, sdkmath.NewInt(cfg.MinValue))
			ig.LockableDurations = Durations
			gs[inctypes.ModuleName] = a.AppCodec().MustMarshalJSON(&ig)
			var pg pitypes.GenesisState
			a.AppCodec().MustUnmarshalJSON(gs[pitypes.ModuleName], &pg)
			pg.LockableDurations = Durations
			gs[pitypes.ModuleName] = a.AppCodec().MustMarshalJSON(&pg)
			// the gauge fees are charged in the txfees base denom; on the real chain that is uosmo
			var tg txfeestypes.GenesisState
			a.AppCodec().MustUnmarshalJSON(gs[txfeestypes.ModuleName], &tg)
			tg.Basedenom = Uosmo
			gs[txfeestypes.ModuleName] = a.AppCodec().MustMarshalJSON(&tg)
			if cfg.CL {
				// Pool volume (what groups split by) is tracked in the staking bond denom. On the real chain that is uosmo;
				// the shared deterministic genesis bonds "stake". Re-denominate the genesis bond for CL worlds.
				var sg stakingtypes.GenesisState
				a.AppCodec().MustUnmarshalJSON(gs[stakingtypes.ModuleName], &sg)
				old := sg.Params.BondDenom
				sg.Params.BondDenom = Uosmo
				gs[stakingtypes.ModuleName] = a.AppCodec().MustMarshalJSON(&sg)
				var bg banktypes.GenesisState
				a.AppCodec().MustUnmarshalJSON(gs[banktypes.ModuleName], &bg)
				for i, b := range bg.Balances {
					if amt := b.Coins.AmountOf(old); amt.IsPositive() {
						bg.Balances[i].Coins = b.Coins.Sub(sdk.NewCoin(old, amt)).Add(sdk.NewCoin(Uosmo, amt))
					}
				}
				bg.Supply = nil // recomputed from the balances
				gs[banktypes.ModuleName] = a.AppCodec().MustMarshalJSON(&bg)
			}
		},
	})
	a, ctx := env.App, env.Ctx
	w := &World{Env: env, App: a, Cfg: cfg, R: r, Tracked: Accounts}
	w.IncAddr = authtypes.NewModuleAddress(inctypes.ModuleName)
	w.LockAddr = authtypes.NewModuleAddress(lockuptypes.ModuleName)
	w.DistrAddr = authtypes.NewModuleAddress(distrtypes.ModuleName)

	if ep := a.EpochsKeeper.GetEpochInfo(ctx, EpochID); ep.Duration != EpochDur {
		panic(fmt.Sprintf("harness: epoch %q has duration %s", EpochID, ep.Duration))
	}
	if p := a.IncentivesKeeper.GetParams(ctx); p.DistrEpochIdentifier != EpochID || !p.MinValueForDistribution.Amount.Equal(sdkmath.NewInt(cfg.MinValue)) {
		panic("harness: incentives params not applied")
	}

	mkPool := func(x, y sdk.Coin) uint64 {
		msg := balancer.NewMsgCreateBalancerPool(core.Acc("P"),
			balancer.PoolParams{SwapFee: osmomath.ZeroDec(), ExitFee: osmomath.ZeroDec()},
			[]balancer.PoolAsset{{Token: x, Weight: sdkmath.NewInt(1)}, {Token: y, Weight: sdkmath.NewInt(1)}}, "")
		res := core.Deliver(a, ctx, &msg)
		if !res.OK() {
			panic(fmt.Sprintf("harness: pool creation failed: %v", res.Err))
		}
		var resp balancer.MsgCreateBalancerPoolResponse
		mustUnmarshal(res.Res, &resp)
		return resp.PoolID
	}
	p1 := mkPool(sdk.NewCoin(Uosmo, sdkmath.NewInt(cfg.PoolUosmo)), sdk.NewCoin(R1, sdkmath.NewInt(cfg.PoolR1)))
	p2 := mkPool(sdk.NewCoin(Uosmo, sdkmath.NewInt(cfg.R2Pool)), sdk.NewCoin(R2, sdkmath.NewInt(cfg.R2Pool)))
	if cfg.CL {
		// Created BEFORE the protorev registration below is made explicit, so that the valuation of rwd1 keeps going
		// through the route pool p1 whatever protorev thinks of the new pools.
		cp := cltypes.DefaultParams()
		cp.IsPermissionlessPoolCreationEnabled = true
		a.ConcentratedLiquidityKeeper.SetParams(ctx, cp)
		if len(cp.AuthorizedUptimes) != 1 || cp.AuthorizedUptimes[0] != time.Nanosecond {
			panic("harness: default authorized uptimes changed")
		}
		cm := clmodel.NewMsgCreateConcentratedPool(core.Acc("P"), R1, Uosmo, 100, osmomath.ZeroDec())
		res := core.Deliver(a, ctx, &cm)
		if !res.OK() {
			panic(fmt.Sprintf("harness: concentrated pool creation failed: %v", res.Err))
		}
		var cresp clmodel.MsgCreateConcentratedPoolResponse
		mustUnmarshal(res.Res, &cresp)
		w.CLPool = cresp.PoolID
		w.VolPool = mkPool(sdk.NewCoin(Uosmo, sdkmath.NewInt(50000000)), sdk.NewCoin(R1, sdkmath.NewInt(150000000)))
		pos := &cltypes.MsgCreatePosition{PoolId: w.CLPool, Sender: core.Acc("P").String(), LowerTick: cltypes.MinInitializedTick, UpperTick: cltypes.MaxTick,
			TokensProvided: core.Coins(Uosmo, 50000000, R1, 150000000), TokenMinAmount0: sdkmath.ZeroInt(), TokenMinAmount1: sdkmath.ZeroInt()}
		if res := core.Deliver(a, ctx, pos); !res.OK() {
			panic(fmt.Sprintf("harness: position creation failed: %v", res.Err))
		}
		pool, err := a.ConcentratedLiquidityKeeper.GetConcentratedPoolById(ctx, w.CLPool)
		if err != nil {
			panic(err)
		}
		w.CLIncAddr = pool.GetIncentivesAddress()
		w.PIAddr = authtypes.NewModuleAddress(pitypes.ModuleName)
		w.PoolsAt = ctx.BlockTime()
		if w.CLInternal, err = a.PoolIncentivesKeeper.GetInternalGaugeIDForPool(ctx, w.CLPool); err != nil {
			panic(err)
		}
		if w.VolInternal, err = a.PoolIncentivesKeeper.GetInternalGaugeIDForPool(ctx, w.VolPool); err != nil {
			panic(err)
		}
		// what pool-incentives hands out (the share of the mint provisions on the real chain; here funded by the
		// keeper-level symbol `alloc`): 3 parts to the concentrated pool's internal gauge, 1 part to the volume
		// pool's, 1 part to the community pool. Governance-only state, set through the proposal handler's keeper method.
		if err := a.PoolIncentivesKeeper.ReplaceDistrRecords(ctx,
			pitypes.DistrRecord{GaugeId: 0, Weight: sdkmath.NewInt(1)},
			pitypes.DistrRecord{GaugeId: w.CLInternal, Weight: sdkmath.NewInt(3)},
			pitypes.DistrRecord{GaugeId: w.VolInternal, Weight: sdkmath.NewInt(1)}); err != nil {
			panic(err)
		}
		// the denom pool-incentives hands out is uosmo, as on the real chain (the default genesis says "stake")
		a.PoolIncentivesKeeper.SetParams(ctx, pitypes.Params{MintedDenom: Uosmo})
		if md := a.PoolIncentivesKeeper.GetParams(ctx).MintedDenom; md != Uosmo {
			panic("harness: pool-incentives minted denom is " + md)
		}
		w.Tracked = append(append([]string{}, Accounts...), ClInc)
	}
	// The module values a reward denom through the pool protorev has registered for (uosmo, denom).
	// protorev registers pools of its base denoms when they are created; make the registration explicit
	// (same setter) so the scenario does not depend on protorev's genesis.
	for _, x := range []struct {
		d string
		p uint64
	}{{R1, p1}, {R2, p2}} {
		if got, err := a.ProtoRevKeeper.GetPoolForDenomPairNoOrder(ctx, Uosmo, x.d); err != nil || got != x.p {
			a.ProtoRevKeeper.SetPoolForDenomPair(ctx, Uosmo, x.d, x.p)
		}
	}
	// thresholds by the documented valuation, taken from the pool model (not from x/incentives)
	w.Min[0] = cfg.MinValue
	for i, x := range []struct {
		d string
		p uint64
	}{{R1, p1}, {R2, p2}} {
		pool, err := a.GAMMKeeper.GetPoolAndPoke(ctx, x.p)
		if err != nil {
			panic(err)
		}
		out, err := pool.CalcOutAmtGivenIn(ctx, sdk.NewCoins(sdk.NewCoin(Uosmo, sdkmath.NewInt(cfg.MinValue))), x.d, osmomath.ZeroDec())
		if err != nil {
			// the minimum buys less than one unit of the denom: every positive amount is worth more than the minimum.
			// Cross-check with the exact constant-product quote before accepting that reading.
			bal := pool.GetTotalPoolLiquidity(ctx)
			q := new(big.Int).Mul(big.NewInt(cfg.MinValue), bal.AmountOf(x.d).BigInt())
			q.Quo(q, new(big.Int).Add(bal.AmountOf(Uosmo).BigInt(), big.NewInt(cfg.MinValue)))
			if q.Sign() != 0 {
				panic(fmt.Sprintf("harness: pool quote failed but exact quote is %s: %v", q, err))
			}
			w.Min[i+1] = 0
			continue
		}
		w.Min[i+1] = out.Amount.Int64()
	}
	// Start epoch counting: the first BeginBlocker after genesis only starts epoch 1.
	next, err := core.NextBlock(a, ctx, time.Second)
	if err != nil {
		panic(err)
	}
	w.Base = next
	if ep := a.EpochsKeeper.GetEpochInfo(next, EpochID); !ep.EpochCountingStarted || ep.CurrentEpoch != 1 {
		panic("harness: epoch counting did not start")
	}
	if cfg.CL {
		if got, err := a.ProtoRevKeeper.GetPoolForDenomPairNoOrder(next, Uosmo, R1); err != nil || got != p1 {
			panic("harness: rwd1 is not valued through the route pool")
		}
		if bd, err := a.StakingKeeper.BondDenom(next); err != nil || bd != Uosmo {
			panic("harness: bond denom (the denom pool volume is tracked in) is " + bd)
		}
	}
	return w
}

// NewLedger is the reference ledger of the base state: empty, except that in CL worlds it knows the two internal
// gauges that pool creation made and that groups pay into (perpetual, start = their pool's creation time).
func (w *World) NewLedger() *Ledger {
	l := &Ledger{}
	if w.Cfg.CL {
		l.Gauges = append(l.Gauges,
			Gauge{ID: w.CLInternal, Perp: true, Dur: EpochDur, Start: w.PoolsAt, N: 1, Kind: KNoLock, Internal: true},
			Gauge{ID: w.VolInternal, Perp: true, Dur: Durations[len(Durations)-1], Start: w.PoolsAt, N: 1, Kind: KLock,
				LockDen: fmt.Sprintf("gamm/pool/%d", w.VolPool), Internal: true})
	}
	return l
}

func mustUnmarshal(res *sdk.Result, m proto.Message) {
	if len(res.MsgResponses) > 0 {
		if err := proto.Unmarshal(res.MsgResponses[0].Value, m); err != nil {
			panic(err)
		}
		return
	}
	if err := proto.Unmarshal(res.Data, m); err != nil {
		panic(err)
	}
}

// errClass maps an error to a short stable class.
func errClass(err error) string {
	if err == nil {
		return "ok"
	}
	m := []rune(err.Error())
	out := make([]rune, 0, 60)
	for _, c := range m {
		if c >= '0' && c <= '9' || c == '(' || c == '{' {
			break
		}
		out = append(out, c)
		if len(out) >= 60 {
			break
		}
	}
	s := strings.TrimSpace(string(out))
	s = strings.ReplaceAll(s, "osmo", "")
	return "rejected:" + strings.TrimSpace(s)
}

func (w *World) bal(ctx sdk.Context, addr sdk.AccAddress) Amt {
	var a Amt
	for i, d := range Denoms {
		a[i] = w.App.BankKeeper.GetBalance(ctx, addr, d).Amount.Int64()
	}
	return a
}

func (w *World) lp(ctx sdk.Context, addr sdk.AccAddress) int64 {
	return w.App.BankKeeper.GetBalance(ctx, addr, LP).Amount.Int64()
}

func (w *World) communityPool(ctx sdk.Context) int64 {
	fp, err := w.App.DistrKeeper.FeePool.Get(ctx)
	if err != nil {
		panic(err)
	}
	return fp.CommunityPool.AmountOf(Uosmo).TruncateInt().Int64()
}

func (w *World) epochNo(ctx sdk.Context) int64 {
	return w.App.EpochsKeeper.GetEpochInfo(ctx, EpochID).CurrentEpoch
}

// RemoveR2Route is the keeper-level step of seed S4: it deletes protorev's (uosmo, r2) pool entry, which is
// what x/incentives consults to value r2 ("not valuable at all" afterwards).
func (w *World) RemoveR2Route(ctx sdk.Context, l *Ledger) {
	st := prefix.NewStore(ctx.KVStore(w.App.GetKey(protorevtypes.StoreKey)), protorevtypes.KeyPrefixDenomPairToPool)
	st.Delete(protorevtypes.GetKeyPrefixDenomPairToPool(Uosmo, R2))
	st.Delete(protorevtypes.GetKeyPrefixDenomPairToPool(R2, Uosmo))
	if _, err := w.App.ProtoRevKeeper.GetPoolForDenomPairNoOrder(ctx, Uosmo, R2); err == nil {
		panic("harness: r2 route still present")
	}
	l.NoR2 = true
}

// Apply executes one symbol on the real application and updates the ledger.
func (w *World) Apply(ctx sdk.Context, l *Ledger, op Op, fail func(a, s, d string)) (sdk.Context, string) {
	a := w.App
	l.Steps++
	switch op.K {
	case "gauge", "clgauge":
		owner := core.Acc(op.A)
		start := ctx.BlockTime()
		if op.Fut {
			start = start.Add(FutureLag)
		}
		if op.Tie {
			start = start.Add(EpochStep)
		}
		coins := GaugeCoins[op.C]
		msg := &inctypes.MsgCreateGauge{IsPerpetual: op.Perp, Owner: owner.String(),
			DistributeTo: lockuptypes.QueryCondition{LockQueryType: lockuptypes.ByDuration, Denom: LP, Duration: time.Duration(op.Dur)},
			Coins:        coins.Coins(), StartTime: start, NumEpochsPaidOver: op.N}
		kind, dur := KLock, time.Duration(op.Dur)
		if op.K == "clgauge" {
			// an external incentive gauge of the concentrated pool: no lock condition, the duration field is the uptime
			kind, dur = KNoLock, time.Nanosecond
			msg.DistributeTo = lockuptypes.QueryCondition{LockQueryType: lockuptypes.NoLock, Duration: dur}
			msg.PoolId = w.CLPool
		}
		b0, m0, d0, cp0 := w.bal(ctx, owner), w.bal(ctx, w.IncAddr), w.bal(ctx, w.DistrAddr), w.communityPool(ctx)
		last0 := a.IncentivesKeeper.GetLastGaugeID(ctx)
		r := core.Deliver(a, ctx, msg)
		if !r.OK() {
			if w.bal(ctx, owner) != b0 || w.bal(ctx, w.IncAddr) != m0 {
				fail("reject.no-effect", "", "rejected gauge creation moved funds")
			}
			return ctx, errClass(r.Err)
		}
		id := a.IncentivesKeeper.GetLastGaugeID(ctx)
		if id != last0+1 {
			fail("gauge.create-issues-next-id", "", fmt.Sprintf("last id %d -> %d", last0, id))
		}
		fee := inctypes.CreateGaugeFee.Int64()
		w.checkFunding(ctx, "gauge.create", owner, coins, fee, b0, m0, d0, cp0, fail)
		l.Fees += fee
		l.Gauges = append(l.Gauges, Gauge{ID: id, Perp: op.Perp, Dur: dur, Start: start, N: op.N, Coins: coins, Status: StUpcoming, Fut: op.Fut, Kind: kind})
	case "add":
		if op.G >= len(l.Gauges) {
			return ctx, "rejected:no-such-gauge"
		}
		g := &l.Gauges[op.G]
		owner := core.Acc(op.A)
		coins := AddCoins[op.C]
		msg := &inctypes.MsgAddToGauge{Owner: owner.String(), GaugeId: g.ID, Rewards: coins.Coins()}
		b0, m0, d0, cp0 := w.bal(ctx, owner), w.bal(ctx, w.IncAddr), w.bal(ctx, w.DistrAddr), w.communityPool(ctx)
		r := core.Deliver(a, ctx, msg)
		if !r.OK() {
			if w.bal(ctx, owner) != b0 || w.bal(ctx, w.IncAddr) != m0 {
				fail("reject.no-effect", "", "rejected top-up moved funds")
			}
			return ctx, errClass(r.Err)
		}
		fee := inctypes.AddToGaugeFee.Int64()
		w.checkFunding(ctx, "gauge.add", owner, coins, fee, b0, m0, d0, cp0, fail)
		l.Fees += fee
		g.Coins = g.Coins.Add(coins)
		if g.Status == StFinished {
			// observed, not judged: the statement only says that finished gauges pay nothing
			if g.Early {
				w.R.Vacuity["obs_topup_into_early_finished_gauge"]++
			} else {
				w.R.Vacuity["obs_topup_into_finished_gauge"]++
			}
		}
	case "lock":
		owner := core.Acc(op.A)
		msg := &lockuptypes.MsgLockTokens{Owner: owner.String(), Duration: time.Duration(op.Dur), Coins: sdk.NewCoins(sdk.NewCoin(LP, sdkmath.NewInt(op.Amt)))}
		r := core.Deliver(a, ctx, msg)
		if !r.OK() {
			return ctx, errClass(r.Err)
		}
		var resp lockuptypes.MsgLockTokensResponse
		mustUnmarshal(r.Res, &resp)
		if i := l.findLock(resp.ID); i >= 0 {
			k := &l.Locks[i]
			if k.Owner != op.A || k.Dur != time.Duration(op.Dur) || k.Unlocking() {
				fail("lock.added-to-matching-lock", "", fmt.Sprintf("tokens of %s/%s were added to lock %d (%s/%s unlocking=%v)", op.A, time.Duration(op.Dur), k.ID, k.Owner, k.Dur, k.Unlocking()))
			}
			k.Amt += op.Amt
		} else {
			l.Locks = append(l.Locks, Lock{ID: resp.ID, Owner: op.A, Dur: time.Duration(op.Dur), Amt: op.Amt})
		}
	case "unlock", "punlock":
		if op.L >= len(l.Locks) {
			return ctx, "rejected:no-such-lock"
		}
		k := &l.Locks[op.L]
		msg := &lockuptypes.MsgBeginUnlocking{Owner: core.Acc(k.Owner).String(), ID: k.ID}
		if op.K == "punlock" {
			msg.Coins = sdk.NewCoins(sdk.NewCoin(LP, sdkmath.NewInt(op.Amt)))
		}
		r := core.Deliver(a, ctx, msg)
		if !r.OK() {
			return ctx, errClass(r.Err)
		}
		var resp lockuptypes.MsgBeginUnlockingResponse
		mustUnmarshal(r.Res, &resp)
		end := ctx.BlockTime().Add(k.Dur)
		if resp.UnlockingLockID == k.ID {
			k.End = end
		} else {
			// partial: the response names the new lock that carries the unlocking part
			k.Amt -= op.Amt
			nk := Lock{ID: resp.UnlockingLockID, Owner: k.Owner, Dur: k.Dur, Amt: op.Amt, Recv: k.Recv, End: end}
			l.Locks = append(l.Locks, nk)
			w.R.Vacuity["partial_unlock_split"]++
		}
	case "setrr":
		if op.L >= len(l.Locks) {
			return ctx, "rejected:no-such-lock"
		}
		k := &l.Locks[op.L]
		msg := &lockuptypes.MsgSetRewardReceiverAddress{Owner: core.Acc(k.Owner).String(), LockID: k.ID, RewardReceiver: core.Acc(op.To).String()}
		r := core.Deliver(a, ctx, msg)
		if !r.OK() {
			return ctx, errClass(r.Err)
		}
		if op.To == k.Owner {
			k.Recv = ""
		} else {
			k.Recv = op.To
		}
	case "extend":
		// MsgExtendLockup to the longest lockable duration: the lock keeps its id, owner, amount and receiver and from now
		// on qualifies for gauges of every duration up to the new one - once, not twice
		if op.L >= len(l.Locks) {
			return ctx, "rejected:no-such-lock"
		}
		k := &l.Locks[op.L]
		r := core.Deliver(a, ctx, &lockuptypes.MsgExtendLockup{Owner: core.Acc(k.Owner).String(), ID: k.ID, Duration: time.Duration(H24)})
		if !r.OK() {
			return ctx, errClass(r.Err)
		}
		k.Dur = time.Duration(H24)
		w.R.Vacuity["lock_extended"]++
	case "rmr2":
		w.RemoveR2Route(ctx, l)
	case "swap":
		// environment only: generates pool volume (what groups split by). P swaps uosmo for rwd1.
		msg := &pmtypes.MsgSwapExactAmountIn{Sender: core.Acc("P").String(), TokenIn: sdk.NewCoin(Uosmo, sdkmath.NewInt(op.Amt)), TokenOutMinAmount: sdkmath.OneInt(),
			Routes: []pmtypes.SwapAmountInRoute{{PoolId: []uint64{w.CLPool, w.VolPool}[op.P], TokenOutDenom: R1}}}
		m0 := w.bal(ctx, w.IncAddr)
		r := core.Deliver(a, ctx, msg)
		if !r.OK() {
			return ctx, errClass(r.Err)
		}
		if w.bal(ctx, w.IncAddr) != m0 {
			fail("schedule.no-payment-outside-epoch-end", "", "a swap moved the incentives module balance")
		}
	case "group", "kgroup":
		owner := core.Acc(op.A)
		coins := GaugeCoins[op.C]
		pools := []uint64{w.CLPool, w.VolPool}
		b0, m0, d0, cp0 := w.bal(ctx, owner), w.bal(ctx, w.IncAddr), w.bal(ctx, w.DistrAddr), w.communityPool(ctx)
		last0 := a.IncentivesKeeper.GetLastGaugeID(ctx)
		var id uint64
		if op.K == "group" {
			msg := &inctypes.MsgCreateGroup{Coins: coins.Coins(), NumEpochsPaidOver: 0, Owner: owner.String(), PoolIds: pools}
			r := core.Deliver(a, ctx, msg)
			if !r.OK() {
				if w.bal(ctx, owner) != b0 || w.bal(ctx, w.IncAddr) != m0 {
					fail("reject.no-effect", "", "rejected group creation moved funds")
				}
				return ctx, errClass(r.Err)
			}
			var resp inctypes.MsgCreateGroupResponse
			mustUnmarshal(r.Res, &resp)
			id = resp.GroupId
		} else {
			// keeper-level: MsgCreateGroup.ValidateBasic refuses n != 0 ("non-perpetual group creation is disabled"), the
			// keeper method the message server calls does not. All-or-nothing like a message.
			child, write := ctx.CacheContext()
			var err error
			perr := core.Try(func() error {
				id, err = a.IncentivesKeeper.CreateGroup(child, coins.Coins(), op.N, owner, pools)
				return err
			})
			if perr != nil {
				return ctx, errClass(perr)
			}
			write()
		}
		if id != last0+1 || a.IncentivesKeeper.GetLastGaugeID(ctx) != id {
			fail("gauge.create-issues-next-id", "", fmt.Sprintf("last id %d, group gauge id %d", last0, id))
		}
		fee := a.IncentivesKeeper.GetParams(ctx).GroupCreationFee.AmountOf(Uosmo).Int64()
		// the group creation fee is sent to the distribution module account; whether it is booked to the community
		// pool is observed, not judged (the statement does not speak about fees)
		b1, m1, d1, cp1 := w.bal(ctx, owner), w.bal(ctx, w.IncAddr), w.bal(ctx, w.DistrAddr), w.communityPool(ctx)
		if want := b0.Sub(coins).Sub(Amt{fee, 0, 0}); b1 != want {
			fail("group.create.sender-pays-coins-plus-fee", "", fmt.Sprintf("sender balance %s -> %s, expected %s (coins %s + fee %duosmo)", b0, b1, want, coins, fee))
		}
		if m1 != m0.Add(coins) {
			fail("group.create.module-receives-coins", "", fmt.Sprintf("incentives module balance %s -> %s, expected +%s", m0, m1, coins))
		}
		if d1 != d0.Add(Amt{fee, 0, 0}) {
			fail("group.create.fee-leaves-to-distribution-account", "", fmt.Sprintf("distribution account %s -> %s, expected +%duosmo", d0, d1, fee))
		}
		if cp1 == cp0+fee {
			w.R.Vacuity["obs_group_fee_booked_to_community_pool"]++
		} else {
			w.R.Vacuity["obs_group_fee_in_distribution_account_but_not_booked_to_community_pool"]++
		}
		g := Gauge{ID: id, Perp: op.K == "group", Start: ctx.BlockTime(), N: op.N, Coins: coins, Status: StActive, Kind: KGroup}
		if g.Perp {
			g.N = 1
		}
		gr := Group{G: len(l.Gauges), Pools: pools}
		for _, mid := range []uint64{w.CLInternal, w.VolInternal} {
			gr.Members = append(gr.Members, l.gaugeIndex(mid))
		}
		for _, pid := range pools {
			v := a.PoolManagerKeeper.GetOsmoVolumeForPool(ctx, pid).Int64()
			gr.W = append(gr.W, v)
			gr.Snap = append(gr.Snap, v)
		}
		l.Gauges = append(l.Gauges, g)
		l.Groups = append(l.Groups, gr)
		w.R.Vacuity["group_created"]++
	case "alloc":
		// keeper-level: what the mint hook does each mint epoch, with harness-funded coins instead of minted ones.
		// pool-incentives hands its whole balance of the minted denom out according to the distribution records.
		child, write := ctx.CacheContext()
		if err := a.BankKeeper.SendCoinsFromAccountToModule(child, core.Acc("P"), pitypes.ModuleName, sdk.NewCoins(sdk.NewCoin(Uosmo, sdkmath.NewInt(op.Amt)))); err != nil {
			panic(err)
		}
		m0, p0 := w.bal(child, w.IncAddr), w.bal(child, w.PIAddr)
		if err := core.Try(func() error { return a.PoolIncentivesKeeper.AllocateAsset(child) }); err != nil {
			return ctx, errClass(err)
		}
		write()
		// records of the base state: 1 part community pool, 3 parts concentrated internal gauge, 1 part volume-pool internal gauge
		toCL, toVol := floorMulDiv(p0[0], 3, 5, 1), floorMulDiv(p0[0], 1, 5, 1)
		ci, vi := l.gaugeIndex(w.CLInternal), l.gaugeIndex(w.VolInternal)
		l.Gauges[ci].Coins = l.Gauges[ci].Coins.Add(Amt{toCL, 0, 0})
		l.Gauges[vi].Coins = l.Gauges[vi].Coins.Add(Amt{toVol, 0, 0})
		if m1 := w.bal(ctx, w.IncAddr); m1 != m0.Add(Amt{toCL + toVol, 0, 0}) {
			fail("alloc.module-receives-what-the-gauges-are-credited", "", fmt.Sprintf("incentives module balance %s -> %s, expected +%duosmo", m0, m1, toCL+toVol))
		}
		w.R.Vacuity["internal_gauges_topped_up_by_pool_incentives"]++
	case "epoch", "tick":
		dt := TickStep
		if op.K == "epoch" {
			dt = EpochStep
		}
		return w.block(ctx, l, dt, fail)
	default:
		panic("unknown op " + op.K)
	}
	return ctx, "ok"
}

// checkFunding: a successful creation / top-up moves exactly coins into the incentives module account and
// exactly the fee into the community pool, all from the sender.
func (w *World) checkFunding(ctx sdk.Context, what string, owner sdk.AccAddress, coins Amt, fee int64, b0, m0, d0 Amt, cp0 int64, fail func(a, s, d string)) {
	b1, m1, d1, cp1 := w.bal(ctx, owner), w.bal(ctx, w.IncAddr), w.bal(ctx, w.DistrAddr), w.communityPool(ctx)
	wantOwner := b0.Sub(coins).Sub(Amt{fee, 0, 0})
	if b1 != wantOwner {
		fail(what+".sender-pays-coins-plus-fee", "", fmt.Sprintf("sender balance %s -> %s, expected %s (coins %s + fee %duosmo)", b0, b1, wantOwner, coins, fee))
	}
	if m1 != m0.Add(coins) {
		fail(what+".module-receives-coins", "", fmt.Sprintf("incentives module balance %s -> %s, expected +%s", m0, m1, coins))
	}
	if d1 != d0.Add(Amt{fee, 0, 0}) || cp1 != cp0+fee {
		fail(what+".fee-to-community-pool", "", fmt.Sprintf("distribution account %s -> %s, community pool %d -> %d, expected +%duosmo", d0, d1, cp0, cp1, fee))
	}
}

func (l *Ledger) gaugeIndex(id uint64) int {
	for i := range l.Gauges {
		if l.Gauges[i].ID == id {
			return i
		}
	}
	panic(fmt.Sprintf("harness: gauge %d is not in the ledger", id))
}

// userGauges counts the gauges created by symbols of the history (not the internal ones of the base state).
func (l *Ledger) userGauges() int {
	n := 0
	for _, g := range l.Gauges {
		if !g.Internal {
			n++
		}
	}
	return n
}

func (l *Ledger) findLock(id uint64) int {
	for i := range l.Locks {
		if l.Locks[i].ID == id {
			return i
		}
	}
	return -1
}

// Alphabet describes what Enabled offers.
type Alphabet struct {
	Gauges    []Op
	MaxGauges int
	Adds      []Op // G is filled per gauge
	Locks     []Op
	MaxLocks  int
	Partial   int64
	Back      bool // setrr back to the owner
	Tick      bool

	// CL worlds
	CLGauges   []Op `json:",omitempty"` // NoLock gauge creations (count towards MaxGauges)
	Swaps      []Op `json:",omitempty"`
	Groups     []Op `json:",omitempty"`
	MaxGroups  int  `json:",omitempty"`
	Allocs     []Op `json:",omitempty"`
	NoLockMgmt bool `json:",omitempty"` // do not offer unlock / punlock / setrr
}

func (w *World) Enabled(al *Alphabet) func(ctx sdk.Context, l *Ledger, depth int) []Op {
	return func(ctx sdk.Context, l *Ledger, depth int) []Op {
		var ops []Op
		ops = append(ops, Op{K: "epoch"})
		if al.Tick {
			ops = append(ops, Op{K: "tick"})
		}
		if len(l.Locks) < al.MaxLocks {
			ops = append(ops, al.Locks...)
		}
		if l.userGauges()-len(l.Groups) < al.MaxGauges {
			ops = append(ops, al.CLGauges...)
			ops = append(ops, al.Gauges...)
		}
		ops = append(ops, al.Swaps...)
		if len(l.Groups) < al.MaxGroups {
			ops = append(ops, al.Groups...)
		}
		ops = append(ops, al.Allocs...)
		for i, k := range l.Locks {
			if al.NoLockMgmt {
				break
			}
			if !k.Unlocking() {
				ops = append(ops, Op{K: "unlock", L: i})
				if al.Partial > 0 && k.Amt > al.Partial {
					ops = append(ops, Op{K: "punlock", L: i, Amt: al.Partial})
				}
			}
			if !k.Unlocking() && k.Dur < time.Duration(H24) {
				ops = append(ops, Op{K: "extend", L: i})
			}
			if k.Recv == "" {
				ops = append(ops, Op{K: "setrr", L: i, To: "R"})
			} else if al.Back {
				ops = append(ops, Op{K: "setrr", L: i, To: k.Owner})
			}
		}
		for i, g := range l.Gauges {
			if g.Status == StFinished && !g.Early || g.Internal && g.Kind == KLock {
				// a top-up of a finished gauge is refused; offered once per state to see the refusal
				// (the volume pool's internal gauge has no lock to pay: one top-up symbol is enough)
				ops = append(ops, Op{K: "add", A: al.Adds[0].A, G: i, C: al.Adds[0].C})
				continue
			}
			for _, ad := range al.Adds {
				ops = append(ops, Op{K: "add", A: ad.A, G: i, C: ad.C})
			}
		}
		return ops
	}
}
