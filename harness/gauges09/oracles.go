package main

import (
	"fmt"
	"math/big"
	"sort"
	"strings"
	"time"

	sdk "github.com/cosmos/cosmos-sdk/types"

	inctypes "github.com/osmosis-labs/osmosis/v31/x/incentives/types"
	lockuptypes "github.com/osmosis-labs/osmosis/v31/x/lockup/types"

	"github.com/osmosis-labs/osmosis/v31/zzverif/core"
)

// floorMulDiv = floor(a*b / (c*d)) in big integers.
func floorMulDiv(a, b, c, d int64) int64 {
	n := new(big.Int).Mul(big.NewInt(a), big.NewInt(b))
	m := new(big.Int).Mul(big.NewInt(c), big.NewInt(d))
	return n.Quo(n, m).Int64()
}

// epochRef is what the reference expects of one distribution epoch.
type epochRef struct {
	Pay      map[string]Amt // receiver name -> amount
	PerGauge []Amt          // indexed like l.Gauges
	Total    Amt
	// per paid lock: owner, receiver, amount (for the divergence diagnosis only)
	Items []payItem
	// a reward denom of an active gauge with qualifying locks is worth more per unit than the minimum
	PreciousInPlay bool
	// an active NoLock gauge holds a denom of which there is less than one unit per remaining epoch
	NoLockZeroShareInPlay bool
	LockPaid, NoLockPaid  bool
}

// groupRef is what the reference expects of the group pass of one distribution epoch (it precedes activation
// and distribution of the ordinary gauges): every active group gauge hands its per-epoch amount (remaining /
// remaining epochs, everything when perpetual) to its member gauges. HOW it is split among the members is
// not judged (the statement does not speak about it); that nothing is created or lost is.
type groupRef struct {
	PerGroup []Amt // indexed like l.Groups
	Total    Amt
}

func (w *World) referenceGroups(l *Ledger, now time.Time) *groupRef {
	gr := &groupRef{PerGroup: make([]Amt, len(l.Groups))}
	for i, grp := range l.Groups {
		g := &l.Gauges[grp.G]
		if g.Status != StActive || now.Before(g.Start) {
			continue
		}
		rem := g.Remaining()
		remEpochs := int64(1)
		if !g.Perp {
			remEpochs = int64(g.N - g.Filled)
		}
		var amt Amt
		for d := range rem {
			if rem[d] > 0 {
				amt[d] = rem[d] / remEpochs
			}
		}
		g.Dist = g.Dist.Add(amt)
		g.Filled++
		gr.PerGroup[i] = amt
		gr.Total = gr.Total.Add(amt)
		if !amt.IsZero() {
			if g.Perp && g.Paid >= 1 {
				w.R.Vacuity["group_perpetual_paid_again"]++
			}
			if !g.Perp && g.Filled >= 2 {
				w.R.Vacuity["group_nonperpetual_paid_in_later_epoch"]++
			}
		}
		if !g.Perp && g.Filled == g.N {
			g.Status, g.Gone = StFinished, true
			w.R.Vacuity["group_nonperpetual_finished_after_exactly_n_epochs"]++
		}
	}
	return gr
}

type payItem struct {
	Owner, Recv string
	A           Amt
}

// reference applies the statement's rule to the ledger for an epoch ending in a block with time now.
func (w *World) reference(l *Ledger, now time.Time, count bool) *epochRef {
	ref := &epochRef{Pay: map[string]Amt{}, PerGauge: make([]Amt, len(l.Gauges))}
	vac := func(k string) {
		if count {
			w.R.Vacuity[k]++
		}
	}
	for gi := range l.Gauges {
		g := &l.Gauges[gi]
		if g.Status == StUpcoming && !now.Before(g.Start) {
			g.Status = StActive
			vac("upcoming_gauge_activated")
			if g.Fut {
				vac("upcoming_gauge_with_future_start_activated")
			}
			if now.Equal(g.Start) {
				vac("gauge_activated_by_an_epoch_end_block_at_exactly_its_start_time")
			}
		}
		if g.Kind == KGroup {
			continue // handled by referenceGroups
		}
		if g.Status != StActive {
			if g.Status == StUpcoming {
				vac("upcoming_gauge_not_paid_before_start")
				if g.Kind == KNoLock {
					vac("nolock_upcoming_gauge_not_paid_before_start")
				}
			}
			continue
		}
		if g.Kind == KNoLock {
			// no lock condition: the recipient is the concentrated pool (its incentive address), which always exists,
			// so every epoch since activation is a paying epoch
			if !g.Perp && g.Filled >= g.N {
				g.Status = StFinished
				continue
			}
			rem := g.Remaining()
			remEpochs := int64(1)
			if !g.Perp {
				remEpochs = int64(g.N - g.Filled)
			}
			var amt Amt
			for i := range rem {
				if rem[i] > 0 {
					amt[i] = rem[i] / remEpochs
					if amt[i] == 0 {
						// less than one unit per remaining epoch: nothing of this denom this epoch, the epoch still counts
						ref.NoLockZeroShareInPlay = true
						vac("nolock_denom_with_zero_per_epoch_share_skipped")
					} else if g.Dist[i] == 0 && g.Filled > 0 && !g.Perp {
						vac("nolock_denom_first_paid_in_a_later_epoch_after_zero_shares")
					}
				}
			}
			if !amt.IsZero() {
				ref.Pay[ClInc] = ref.Pay[ClInc].Add(amt)
				ref.NoLockPaid = true
				if g.Internal {
					vac("nolock_internal_gauge_paid_pool")
				} else {
					vac("nolock_external_gauge_paid_pool")
				}
				if g.Perp && g.Paid >= 1 {
					vac("nolock_perpetual_gauge_paid_again")
				}
				if !g.Perp && g.Filled >= 1 {
					vac("nolock_nonperpetual_gauge_paid_in_later_epoch")
				}
				if g.Fut && g.Filled == 0 {
					vac("nolock_gauge_with_future_start_paid")
				}
			}
			g.Dist = g.Dist.Add(amt)
			g.Filled++
			ref.PerGauge[gi] = amt
			ref.Total = ref.Total.Add(amt)
			if !g.Perp && g.Filled == g.N {
				g.Status = StFinished
				vac("nolock_gauge_finished_after_exactly_n_epochs")
			}
			continue
		}
		if !g.Perp && g.Filled >= g.N {
			// only reachable after a reported divergence was adopted (resync): the module keeps a gauge active that
			// has had its n paying epochs. The statement says it is finished and pays nothing.
			g.Status = StFinished
			continue
		}
		var q []int
		var total int64
		sizes := map[int64]bool{}
		owners := map[string]bool{}
		for li, k := range l.Locks {
			if g.LockDen != "" {
				break // the ledger's locks are all lptok
			}
			if k.Dur >= g.Dur && k.Amt > 0 {
				q = append(q, li)
				total += k.Amt
				sizes[k.Amt] = true
				owners[k.Owner] = true
			}
		}
		if len(q) == 0 {
			g.Empty++
			if !g.Internal {
				vac("obs_epoch_without_qualifying_lock")
			}
			continue
		}
		if len(sizes) >= 2 {
			vac("epoch_with_two_qualifying_locks_of_different_size")
		}
		if len(owners) >= 2 {
			vac("epoch_with_qualifying_locks_of_two_owners")
		}
		rem := g.Remaining()
		remEpochs := int64(1)
		if !g.Perp {
			remEpochs = int64(g.N - g.Filled)
		}
		var paidG Amt
		for _, li := range q {
			k := l.Locks[li]
			var got Amt
			for i := range rem {
				if rem[i] <= 0 {
					continue
				}
				if i > 0 && w.Min[i] == 0 && !(i == 2 && l.NoR2) {
					ref.PreciousInPlay = true
				}
				amt := floorMulDiv(rem[i], k.Amt, total, remEpochs)
				if amt == 0 {
					continue
				}
				if i == 2 && l.NoR2 {
					vac("skipped_not_valuable_at_all")
					continue
				}
				if amt < w.Min[i] {
					vac("skipped_below_minimum_payout")
					continue
				}
				got[i] = amt
			}
			if got.IsZero() {
				continue
			}
			ref.Pay[k.Receiver()] = ref.Pay[k.Receiver()].Add(got)
			ref.LockPaid = true
			ref.Items = append(ref.Items, payItem{Owner: k.Owner, Recv: k.Receiver(), A: got})
			paidG = paidG.Add(got)
			if k.Recv != "" {
				vac("redirected_receiver_paid")
			}
			if k.Unlocking() {
				if now.Before(k.End) {
					vac("unlocking_lock_still_paid")
				} else {
					vac("obs_matured_unswept_lock_paid")
				}
			}
		}
		g.Dist = g.Dist.Add(paidG)
		g.Filled++
		ref.PerGauge[gi] = paidG
		ref.Total = ref.Total.Add(paidG)
		if !paidG.IsZero() && g.Perp && g.Paid >= 1 {
			vac("perpetual_gauge_paid_again")
		}
		if !paidG.IsZero() && !g.Perp && g.Filled >= 2 {
			vac("nonperpetual_gauge_paid_in_later_epoch")
		}
		if !g.Perp && g.Filled == g.N {
			g.Status = StFinished
			vac("gauge_finished")
			if g.Empty == 0 {
				vac("gauge_finished_after_exactly_n_paying_epochs")
			}
		}
	}
	return ref
}

// gaugeView is what the module's gauge queries say about one gauge.
type gaugeView struct {
	Rec    inctypes.Gauge
	Status int // -1: in no index / several
	Found  bool
	Group  bool // a group gauge: by design in no lifecycle index; active while its record exists
}

// views reads the three lifecycle indexes and the by-id records.
func (w *World) views(ctx sdk.Context) (map[uint64]gaugeView, []string) {
	k := w.App.IncentivesKeeper
	out := map[uint64]gaugeView{}
	var problems []string
	for st, list := range [][]inctypes.Gauge{k.GetUpcomingGauges(ctx), k.GetActiveGauges(ctx), k.GetFinishedGauges(ctx)} {
		for _, g := range list {
			if v, dup := out[g.Id]; dup {
				problems = append(problems, fmt.Sprintf("gauge %d is in the %s and the %s index", g.Id, stName[v.Status], stName[st]))
				continue
			}
			out[g.Id] = gaugeView{Rec: g, Status: st, Found: true}
		}
	}
	// Group gauges have no lifecycle index (CreateGauge documents it); they are found through the groups.
	if gs, err := k.GetAllGroupsWithGauge(ctx); err != nil {
		problems = append(problems, "groups cannot be listed: "+err.Error())
	} else {
		for _, x := range gs {
			if v, dup := out[x.Gauge.Id]; dup {
				problems = append(problems, fmt.Sprintf("group gauge %d is in the %s index", x.Gauge.Id, stName[v.Status]))
				continue
			}
			if x.Gauge.Id != x.Group.GroupGaugeId || x.Gauge.DistributeTo.LockQueryType != lockuptypes.ByGroup {
				problems = append(problems, fmt.Sprintf("group %d is linked to gauge %d of type %s", x.Group.GroupGaugeId, x.Gauge.Id, x.Gauge.DistributeTo.LockQueryType))
			}
			out[x.Gauge.Id] = gaugeView{Rec: x.Gauge, Status: StActive, Found: true, Group: true}
		}
	}
	return out, problems
}

// Check evaluates the state invariants.
func (w *World) Check(ctx sdk.Context, l *Ledger, fail func(a, s, d string)) {
	err := core.Try(func() error {
		w.check(ctx, l, fail)
		return nil
	})
	if err != nil {
		fail("query.no-panic", "", err.Error())
	}
}

func (w *World) check(ctx sdk.Context, l *Ledger, fail func(a, s, d string)) {
	vs, problems := w.views(ctx)
	for _, p := range problems {
		fail("gauge.in-exactly-one-lifecycle-index", "", p)
	}
	last := w.App.IncentivesKeeper.GetLastGaugeID(ctx)
	gone := 0
	for _, g := range l.Gauges {
		if _, ok := vs[g.ID]; g.Gone && !ok {
			gone++ // a finished non-perpetual group gauge: its record is deleted
		}
	}
	if uint64(len(vs)+gone) != last {
		fail("gauge.in-exactly-one-lifecycle-index", "", fmt.Sprintf("%d gauges issued, %d indexed (or group gauges), %d finished group gauges deleted", last, len(vs), gone))
	}
	// (1) a gauge never distributes more than was deposited into it
	ids := make([]uint64, 0, len(vs))
	for id := range vs {
		ids = append(ids, id)
	}
	sort.Slice(ids, func(i, j int) bool { return ids[i] < ids[j] })
	owed := sdk.NewCoins()       // over the upcoming and active indexes (what ModuleToDistributeCoins is documented to be)
	owedGroups := sdk.NewCoins() // over the group gauges
	for _, id := range ids {
		v := vs[id]
		if !v.Rec.DistributedCoins.IsAllLTE(v.Rec.Coins) && !v.Rec.DistributedCoins.Empty() {
			fail("gauge.distributed-at-most-deposited", "", fmt.Sprintf("gauge %d: distributed %s > coins %s", id, v.Rec.DistributedCoins, v.Rec.Coins))
			continue
		}
		if v.Group {
			owedGroups = owedGroups.Add(v.Rec.Coins.Sub(v.Rec.DistributedCoins...)...)
		} else if v.Status != StFinished {
			owed = owed.Add(v.Rec.Coins.Sub(v.Rec.DistributedCoins...)...)
		}
	}
	// (2) the module holds at least the undistributed remainder of all unfinished gauges, of every kind together
	have := w.App.BankKeeper.GetAllBalances(ctx, w.IncAddr)
	if all := owed.Add(owedGroups...); !all.IsAllLTE(have) && !all.Empty() {
		fail("module.holds-undistributed-remainder", "", fmt.Sprintf("incentives module holds %s, unfinished gauges still owe %s (of which group gauges %s)", have, all, owedGroups))
	}
	if q := w.App.IncentivesKeeper.GetModuleToDistributeCoins(ctx); !q.Equal(owed) && !(q.Empty() && owed.Empty()) {
		fail("query.module-to-distribute-equals-sum", "", fmt.Sprintf("ModuleToDistributeCoins %s, sum over unfinished gauges %s", q, owed))
	}
	// (3) the ledger's gauges
	for _, g := range l.Gauges {
		v, ok := vs[g.ID]
		if g.Gone {
			if ok {
				fail("gauge.status-agrees-with-ledger", "", fmt.Sprintf("group gauge %d still exists after %d of %d epochs", g.ID, g.Filled, g.N))
			}
			continue
		}
		if !ok {
			fail("gauge.record-agrees-with-ledger", "", fmt.Sprintf("gauge %d not found", g.ID))
			continue
		}
		ca, ok1 := amtOf(v.Rec.Coins)
		da, ok2 := amtOf(v.Rec.DistributedCoins)
		if !ok1 || !ok2 || ca != g.Coins || da != g.Dist {
			fail("gauge.record-agrees-with-ledger", "", fmt.Sprintf("gauge %d: coins %s distributed %s, ledger coins %s distributed %s", g.ID, v.Rec.Coins, v.Rec.DistributedCoins, g.Coins, g.Dist))
		}
		if v.Status != g.Status {
			fail("gauge.status-agrees-with-ledger", "", fmt.Sprintf("gauge %d is %s, ledger says %s (filled %d/%d, empty epochs %d)", g.ID, stName[v.Status], stName[g.Status], g.Filled, g.N, g.Empty))
		}
		if !g.Perp && uint64(g.Paid) > g.N {
			fail("epoch.at-most-n-paying-epochs", "", fmt.Sprintf("gauge %d paid in %d epochs, n=%d", g.ID, g.Paid, g.N))
		}
		if g.Early {
			w.R.Vacuity["obs_states_with_early_finished_gauge"]++
			if st := g.Remaining(); !st.IsZero() {
				w.R.Vacuity["obs_states_with_coins_stranded_in_early_finished_gauge"]++
			}
		}
	}
	// (4) the ledger's locks (the lock set is the premise of the reference distribution)
	var lockedLP int64
	for _, k := range l.Locks {
		lockedLP += k.Amt
		rec, err := w.App.LockupKeeper.GetLockByID(ctx, k.ID)
		if err != nil {
			fail("lock.record-agrees-with-ledger", "", fmt.Sprintf("lock %d: %v", k.ID, err))
			continue
		}
		recv := ""
		if k.Recv != "" {
			recv = core.Acc(k.Recv).String()
		}
		if rec.Owner != core.Acc(k.Owner).String() || rec.Duration != k.Dur || rec.Coins.AmountOf(LP).Int64() != k.Amt ||
			rec.RewardReceiverAddress != recv || rec.IsUnlocking() != k.Unlocking() || (k.Unlocking() && !rec.EndTime.Equal(k.End)) {
			fail("lock.record-agrees-with-ledger", "", fmt.Sprintf("lock %d: %v, ledger %+v", k.ID, rec, k))
		}
	}
	if got := w.lp(ctx, w.LockAddr); got != lockedLP {
		fail("lock.record-agrees-with-ledger", "", fmt.Sprintf("lockup module holds %d%s, ledger locks sum to %d", got, LP, lockedLP))
	}
}

// block executes one block boundary and, when the distribution epoch ended in it, compares the
// recipients' balance deltas and the gauges with the reference.
func (w *World) block(ctx sdk.Context, l *Ledger, dt time.Duration, fail func(a, s, d string)) (sdk.Context, string) {
	a := w.App
	pre := map[string]Amt{}
	for _, n := range w.Tracked {
		pre[n] = w.bal(ctx, w.addr(n))
	}
	preMod := w.bal(ctx, w.IncAddr)
	e0 := w.epochNo(ctx)
	endTime := ctx.BlockTime() // time of the block whose EndBlocker runs (lock sweep)
	preViews, _ := w.views(ctx)

	var probe sdk.Context
	if w.Debug {
		probe, _ = ctx.CacheContext()
	}
	next, err := core.NextBlock(a, ctx, dt)
	if err != nil {
		fail("block.boundary-succeeds", "", err.Error())
		return ctx, "rejected:block"
	}
	ctx = next
	fired := w.epochNo(ctx) - e0
	if fired < 0 || fired > 1 {
		fail("block.at-most-one-epoch", "", fmt.Sprintf("epoch counter moved by %d", fired))
	}
	// locks released by the lockup EndBlocker (observed through the by-id query; legality is C06's subject)
	kept := l.Locks[:0:0]
	for _, k := range l.Locks {
		if _, err := a.LockupKeeper.GetLockByID(ctx, k.ID); err != nil {
			if !k.Unlocking() || k.End.After(endTime) {
				fail("lock.exists-until-matured", "", fmt.Sprintf("lock %d vanished (unlocking=%v end=%s, block time %s)", k.ID, k.Unlocking(), k.End, endTime))
			}
			w.R.Vacuity["obs_matured_lock_released"]++
			continue
		}
		kept = append(kept, k)
	}
	l.Locks = kept

	post := map[string]Amt{}
	for _, n := range w.Tracked {
		post[n] = w.bal(ctx, w.addr(n))
	}
	postMod := w.bal(ctx, w.IncAddr)

	if fired == 0 {
		for _, n := range w.Tracked {
			if post[n] != pre[n] {
				fail("schedule.no-payment-outside-epoch-end", "", fmt.Sprintf("%s: %s -> %s in a block without epoch end", n, pre[n], post[n]))
			}
		}
		if postMod != preMod {
			fail("schedule.no-payment-outside-epoch-end", "", fmt.Sprintf("incentives module: %s -> %s in a block without epoch end", preMod, postMod))
		}
		return ctx, "ok"
	}

	l.Epochs++
	before := l.Clone()
	vs, _ := w.views(ctx)

	type bad struct{ assertion, text string }
	var bads []bad
	classes := map[string]bool{}
	addBad := func(assertion, class, text string) {
		bads = append(bads, bad{assertion, text})
		classes[class] = true
	}

	// Group pass (precedes activation and distribution in the module's hook): what the active group gauges hand
	// out must re-appear, exactly, as growth of their member gauges' coins; no other gauge's coins may change.
	// The split itself is adopted from the observation.
	gref := w.referenceGroups(l, ctx.BlockTime())
	if len(l.Groups) > 0 || w.Cfg.CL {
		var credited Amt
		nCredited := 0
		inLedger := map[uint64]bool{}
		for gi := range l.Gauges {
			g := &l.Gauges[gi]
			inLedger[g.ID] = true
			v, ok := vs[g.ID]
			if !ok {
				continue
			}
			ca, _ := amtOf(v.Rec.Coins)
			d := ca.Sub(before.Gauges[gi].Coins)
			if d.IsZero() {
				continue
			}
			member := false
			for i, grp := range l.Groups {
				for _, m := range grp.Members {
					if m == gi && !gref.PerGroup[i].IsZero() {
						member = true
					}
				}
			}
			if !member || d[0] < 0 || d[1] < 0 || d[2] < 0 {
				addBad("group.only-member-gauges-are-credited", "gauge-coins-changed", fmt.Sprintf("gauge %d: coins %s -> %s in the epoch block", g.ID, before.Gauges[gi].Coins, ca))
			}
			credited = credited.Add(d)
			nCredited++
			g.Coins = ca
			if g.Kind == KNoLock && g.Internal && before.Gauges[gi].Status == StActive {
				w.R.Vacuity["group_credit_forwarded_to_the_pool_in_the_same_epoch"]++
			}
		}
		ids := make([]uint64, 0, len(vs))
		for id := range vs {
			ids = append(ids, id)
		}
		sort.Slice(ids, func(i, j int) bool { return ids[i] < ids[j] })
		for _, id := range ids {
			if pv, ok := preViews[id]; ok && !inLedger[id] && !vs[id].Rec.Coins.Equal(pv.Rec.Coins) {
				addBad("group.only-member-gauges-are-credited", "gauge-coins-changed", fmt.Sprintf("gauge %d: coins %s -> %s in the epoch block", id, pv.Rec.Coins, vs[id].Rec.Coins))
			}
		}
		if credited != gref.Total {
			addBad("group.members-credited-exactly-what-the-group-distributes", "group-conservation", fmt.Sprintf("group gauges hand out %s (remaining / remaining epochs), member gauges' coins grew by %s", gref.Total, credited))
		}
		if nCredited >= 2 {
			w.R.Vacuity["group_split_credited_two_members"]++
		}
		if credited == gref.Total {
			w.observeSplit(ctx, l, before, gref)
		}
	}
	ref := w.reference(l, ctx.BlockTime(), true)
	for i, grp := range l.Groups {
		ref.PerGauge[grp.G] = gref.PerGroup[i]
	}
	if ref.LockPaid && ref.NoLockPaid {
		w.R.Vacuity["lock_and_nolock_gauges_paid_in_the_same_epoch"]++
	}

	// recipients
	recipientsOK := true
	for _, n := range w.Tracked {
		got := post[n].Sub(pre[n])
		if got != ref.Pay[n] {
			recipientsOK = false
		}
	}
	modOK := preMod.Sub(postMod) == ref.Total
	// gauges
	gaugeAmountsOK := true
	unchanged := true
	for gi := range l.Gauges {
		g := &l.Gauges[gi]
		b := before.Gauges[gi]
		v, ok := vs[g.ID]
		if b.Gone {
			continue
		}
		if g.Kind == KGroup && (g.Gone || !ok) {
			// a non-perpetual group gauge is deleted when it finishes; what it handed out in its last epoch is judged by
			// the conservation check above
			unchanged = false
			switch {
			case g.Gone && ok:
				addBad("lifecycle.finished-after-exactly-n-paying-epochs", "not-finished", fmt.Sprintf("group gauge %d still exists after %d of %d epochs", g.ID, g.Filled, g.N))
			case !g.Gone && !ok:
				addBad("lifecycle.finished-after-exactly-n-paying-epochs", "finished-early", fmt.Sprintf("group gauge %d was deleted after %d of %d epochs", g.ID, g.Filled, g.N))
			default:
				g.Paid++
			}
			continue
		}
		if !ok {
			addBad("gauge.record-agrees-with-ledger", "gauge-missing", fmt.Sprintf("gauge %d not found after the epoch", g.ID))
			continue
		}
		pv := preViews[g.ID]
		if !v.Rec.DistributedCoins.Equal(pv.Rec.DistributedCoins) || v.Rec.FilledEpochs != pv.Rec.FilledEpochs || v.Status != pv.Status {
			unchanged = false
		}
		da, _ := amtOf(v.Rec.DistributedCoins)
		actPaid := da.Sub(b.Dist)
		if !actPaid.IsZero() {
			g.Paid++
		}
		if b.Status == StFinished && !actPaid.IsZero() {
			addBad("finished.never-pays-again", "finished-paid", fmt.Sprintf("gauge %d was finished and distributed %s", g.ID, actPaid))
		}
		if actPaid != ref.PerGauge[gi] {
			gaugeAmountsOK = false
			rem := b.Remaining()
			nz, small := 0, true
			for i := range rem {
				if rem[i] != 0 {
					nz++
					if rem[i] > 100 {
						small = false
					}
				}
			}
			class := "gauge-amount"
			if actPaid.IsZero() && nz == 1 && small {
				class = "single-denom-remainder<=100-not-paid"
			}
			if g.Kind != KLock {
				class = kindName[g.Kind] + "-gauge-amount"
			}
			addBad("epoch.gauge-distributes-reference-amount", class, fmt.Sprintf("%s gauge %d (remaining %s, filled %d/%d perpetual=%v) distributed %s, reference %s", kindName[g.Kind], g.ID, rem, b.Filled, b.N, b.Perp, actPaid, ref.PerGauge[gi]))
		}
		// lifecycle
		switch {
		case v.Status == g.Status:
		case b.Status == StUpcoming && g.Status != StUpcoming && v.Status == StUpcoming:
			addBad("lifecycle.active-at-first-epoch-end-at-or-after-start", "not-activated", fmt.Sprintf("gauge %d start %s still upcoming after epoch end in block %s", g.ID, g.Start, ctx.BlockTime()))
		case b.Status == StUpcoming && g.Status == StUpcoming && v.Status != StUpcoming:
			addBad("lifecycle.active-at-first-epoch-end-at-or-after-start", "activated-early", fmt.Sprintf("gauge %d start %s became %s at block time %s", g.ID, g.Start, stName[v.Status], ctx.BlockTime()))
		case g.Status == StActive && v.Status == StFinished && !g.Perp && g.Empty > 0:
			// F-9: an epoch without qualifying locks is not counted as filled, yet may finish the gauge. The statement
			// does not say what such an epoch is; observed and adopted, not judged.
			g.Status, g.Early = StFinished, true
			w.R.Vacuity["obs_gauge_finished_early_after_empty_epoch"]++
			if !g.Remaining().IsZero() {
				w.R.Vacuity["obs_coins_stranded_in_early_finished_gauge"]++
			}
		case g.Status == StActive && v.Status == StFinished:
			addBad("lifecycle.finished-after-exactly-n-paying-epochs", "finished-early", fmt.Sprintf("gauge %d finished after %d of %d paying epochs although every epoch since activation had a qualifying lock", g.ID, g.Filled, g.N))
		case g.Status == StFinished && v.Status != StFinished:
			addBad("lifecycle.finished-after-exactly-n-paying-epochs", "not-finished", fmt.Sprintf("gauge %d is %s after %d of %d paying epochs", g.ID, stName[v.Status], g.Filled, g.N))
		default:
			addBad("gauge.status-agrees-with-ledger", "gauge-status", fmt.Sprintf("gauge %d is %s, reference %s", g.ID, stName[v.Status], stName[g.Status]))
		}
		if !g.Perp && uint64(g.Paid) > g.N {
			addBad("epoch.at-most-n-paying-epochs", "paid-more-than-n", fmt.Sprintf("gauge %d paid in %d epochs, n=%d", g.ID, g.Paid, g.N))
		}
	}
	if !recipientsOK || !modOK {
		var sb strings.Builder
		for _, n := range w.Tracked {
			fmt.Fprintf(&sb, "%s got %s want %s; ", n, post[n].Sub(pre[n]), ref.Pay[n])
		}
		fmt.Fprintf(&sb, "module paid out %s want %s", preMod.Sub(postMod), ref.Total)
		class := "recipient-amount"
		if gaugeAmountsOK && modOK {
			class = "recipient"
			if mergedByOwner(ref, post, pre) {
				class = "rewards-of-one-owner-with-differently-redirected-locks-merged-to-one-receiver"
			}
		} else if !gaugeAmountsOK {
			class = "" // explained by the gauge-level classes
		}
		bads = append(bads, bad{"epoch.recipients-paid-exactly-reference", sb.String()})
		if class != "" {
			classes[class] = true
		}
	}
	if len(bads) == 0 {
		return ctx, "ok"
	}
	// Divergence. Stable signature: the set of symptom classes when all of them are specific ones, else the trace.
	movedNothing := unchanged && postMod == preMod
	for _, n := range w.Tracked {
		if post[n] != pre[n] {
			movedNothing = false
		}
	}
	sig := ""
	if movedNothing {
		sig = "epoch-hook-had-no-effect"
		if ref.PreciousInPlay {
			sig += "(a reward denom in play is worth more per unit than MinValueForDistribution)"
		}
		if ref.NoLockZeroShareInPlay {
			sig += "(an active NoLock gauge holds less than one unit per remaining epoch of one of its denoms)"
		}
		sig += "@" + w.Cfg.Name
	} else {
		specific := true
		var cs []string
		for c := range classes {
			cs = append(cs, c)
			if c != "single-denom-remainder<=100-not-paid" && c != "rewards-of-one-owner-with-differently-redirected-locks-merged-to-one-receiver" {
				specific = false
			}
		}
		sort.Strings(cs)
		if specific && len(cs) > 0 {
			sig = "epoch:" + strings.Join(cs, "+")
		}
	}
	var all []string
	for _, b := range bads {
		all = append(all, b.text)
	}
	if w.Debug {
		// replay aid: the epoch hook runner swallows hook errors; call the incentives hook directly on a copy of the
		// pre-block state to show what it returned
		h := probe.BlockHeader()
		h.Height++
		h.Time = h.Time.Add(dt)
		probe = probe.WithBlockHeader(h)
		herr := core.Try(func() error { return a.IncentivesKeeper.AfterEpochEnd(probe, EpochID, e0) })
		fmt.Printf("   [debug] incentives AfterEpochEnd on a copy of the pre-block state returns: %v\n", herr)
	}
	detail := fmt.Sprintf("epoch #%d ending in block time %s [%s]: %s | locks: %s", l.Epochs, ctx.BlockTime().Format(time.RFC3339), w.Cfg.Name, strings.Join(all, " ; "), describeLocks(before))
	seen := map[string]bool{}
	for _, b := range bads {
		if seen[b.assertion] {
			continue
		}
		seen[b.assertion] = true
		if sig != "" && !w.shorter(b.assertion, sig, l.Steps) {
			continue
		}
		fail(b.assertion, sig, detail)
	}
	w.resync(ctx, l, vs)
	return ctx, "ok"
}

func describeLocks(l *Ledger) string {
	var s []string
	for _, k := range l.Locks {
		s = append(s, fmt.Sprintf("#%d %s %d%s %s recv=%s unlocking=%v", k.ID, k.Owner, k.Amt, LP, k.Dur, k.Receiver(), k.Unlocking()))
	}
	return strings.Join(s, ", ")
}

// mergedByOwner reports whether the observed recipient deltas are explained by sending ALL rewards of each
// owner to the receiver of ONE of that owner's paid locks, and differ from the reference only for owners
// that have paid locks with different receivers. (Diagnosis for the signature only.)
func mergedByOwner(ref *epochRef, post, pre map[string]Amt) bool {
	owners := []string{}
	cands := map[string][]string{}
	sum := map[string]Amt{}
	for _, it := range ref.Items {
		if _, ok := sum[it.Owner]; !ok {
			owners = append(owners, it.Owner)
		}
		sum[it.Owner] = sum[it.Owner].Add(it.A)
		dup := false
		for _, c := range cands[it.Owner] {
			if c == it.Recv {
				dup = true
			}
		}
		if !dup {
			cands[it.Owner] = append(cands[it.Owner], it.Recv)
		}
	}
	sort.Strings(owners)
	multi := false
	for _, o := range owners {
		if len(cands[o]) > 1 {
			multi = true
		}
	}
	if !multi {
		return false
	}
	var try func(i int, acc map[string]Amt) bool
	try = func(i int, acc map[string]Amt) bool {
		if i == len(owners) {
			for _, n := range Accounts {
				if post[n].Sub(pre[n]) != acc[n] {
					return false
				}
			}
			return true
		}
		o := owners[i]
		for _, c := range cands[o] {
			acc2 := map[string]Amt{}
			for k, v := range acc {
				acc2[k] = v
			}
			acc2[c] = acc2[c].Add(sum[o])
			if try(i+1, acc2) {
				return true
			}
		}
		return false
	}
	return try(0, map[string]Amt{})
}

// resync adopts the module's gauge records after a REPORTED divergence so that one defect does not cascade
// through the rest of the subtree under ever new signatures.
func (w *World) resync(ctx sdk.Context, l *Ledger, vs map[uint64]gaugeView) {
	for gi := range l.Gauges {
		g := &l.Gauges[gi]
		v, ok := vs[g.ID]
		if !ok {
			if g.Kind == KGroup {
				g.Status, g.Gone = StFinished, true
			}
			continue
		}
		g.Gone = false
		if da, ok := amtOf(v.Rec.DistributedCoins); ok {
			g.Dist = da
		}
		if ca, ok := amtOf(v.Rec.Coins); ok {
			g.Coins = ca
		}
		g.Filled = v.Rec.FilledEpochs
		g.Status = v.Status
		g.Early = !g.Perp && v.Status == StFinished && g.Filled < g.N
	}
	l.Diverge++
}

// shorter keeps, per (assertion, class signature), the violation with the fewest ops since the seed: core's
// AddViolation keeps the FIRST one per key, so a longer earlier instance is removed when a shorter one appears.
func (w *World) shorter(assertion, sig string, steps int) bool {
	key := assertion + "|" + sig
	if w.best == nil {
		w.best = map[string]int{}
	}
	if old, ok := w.best[key]; ok {
		if steps >= old {
			return false
		}
		vs := w.R.Violations[:0]
		for _, v := range w.R.Violations {
			if !(v.Assertion == assertion && v.Signature == sig) {
				vs = append(vs, v)
			}
		}
		w.R.Violations = vs
	}
	w.best[key] = steps
	return true
}

// observeSplit records (does not judge) whether the observed split of a group's per-epoch amount follows the
// members' pool volume since the last weight sync, as the module documents it (weights are refreshed only when
// every member pool had volume since the previous refresh; otherwise the previous weights stay in force).
// The tracked pool volume is read from x/poolmanager: it is the premise of the split, not C09's subject.
func (w *World) observeSplit(ctx sdk.Context, l *Ledger, before *Ledger, gref *groupRef) {
	paying := -1
	for i := range l.Groups {
		if l.Gauges[l.Groups[i].G].Status != StActive && !l.Gauges[l.Groups[i].G].Gone {
			continue
		}
		grp := &l.Groups[i]
		if before.Gauges[grp.G].Status == StActive {
			allMoved := true
			cur := make([]int64, len(grp.Pools))
			for j, pid := range grp.Pools {
				cur[j] = w.App.PoolManagerKeeper.GetOsmoVolumeForPool(ctx, pid).Int64()
				if cur[j] <= grp.Snap[j] {
					allMoved = false
				}
			}
			if allMoved {
				for j := range cur {
					grp.W[j], grp.Snap[j] = cur[j]-grp.Snap[j], cur[j]
				}
				w.R.Vacuity["obs_group_weights_refreshed_from_new_volume"]++
			} else {
				w.R.Vacuity["obs_group_weights_kept_because_a_member_pool_had_no_new_volume"]++
			}
		}
		if !gref.PerGroup[i].IsZero() {
			if paying >= 0 {
				return // two groups paying into the same members: the per-group split is not observable
			}
			paying = i
		}
	}
	if paying < 0 {
		return
	}
	grp := l.Groups[paying]
	var sumW int64
	for _, x := range grp.W {
		sumW += x
	}
	if sumW == 0 {
		return
	}
	ok := true
	for j, m := range grp.Members {
		d := l.Gauges[m].Coins.Sub(before.Gauges[m].Coins)
		for i := range d {
			ideal := floorMulDiv(gref.PerGroup[paying][i], grp.W[j], sumW, 1)
			if d[i] < ideal-1 || d[i] > ideal+int64(len(grp.Members)) {
				ok = false
			}
		}
	}
	if len(grp.W) == 2 && grp.W[0] != grp.W[1] {
		w.R.Vacuity["obs_group_split_with_unequal_weights"]++
	}
	if ok {
		w.R.Vacuity["obs_group_split_follows_volume_share"]++
	} else {
		w.R.Vacuity["obs_group_split_deviates_from_volume_share"]++
	}
}
