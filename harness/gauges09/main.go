// Command gauges09 is the ledger explorer for property C09 (incentive gauges pay pro-rata, on schedule,
// and never more than they hold). See DESIGN.md §5 C09 and §7 F-9.
package main

import (
	"encoding/json"
	"flag"
	"fmt"
	"os"
	"runtime/debug"
	"time"

	sdk "github.com/cosmos/cosmos-sdk/types"

	inctypes "github.com/osmosis-labs/osmosis/v31/x/incentives/types"

	"github.com/osmosis-labs/osmosis/v31/zzverif/core"
)

const (
	H1  = int64(time.Hour)
	H24 = int64(24 * time.Hour)
)

var cfgCheap = Config{Name: "cheap", MinValue: 10, PoolUosmo: 1000000, PoolR1: 3000000, R2Pool: 1000000}

// r1 is worth 10^6 uosmo per unit: the minimum (10 uosmo) buys less than one unit of it.
var cfgPrecious = Config{Name: "precious", MinValue: 10, PoolUosmo: 1000000000, PoolR1: 1000, R2Pool: 1000000}

// the cheap world plus a concentrated-liquidity pool (NoLock gauges, groups) and a balancer pool to swap on
var cfgCL = Config{Name: "cl", MinValue: 10, PoolUosmo: 1000000, PoolR1: 3000000, R2Pool: 1000000, CL: true}

// run is one exploration: configuration x seed x depth x alphabet.
type run struct {
	Cfg   Config
	Seed  string
	Depth int
	Alpha string
}

func (r run) name() string { return fmt.Sprintf("%s/%s/d%d/%s", r.Cfg.Name, r.Seed, r.Depth, r.Alpha) }

func alphabet(name string) *Alphabet {
	gaugesBase := []Op{
		{K: "gauge", A: "A", Dur: H1, C: 0, N: 2},
		{K: "gauge", A: "A", Perp: true, Dur: H1, C: 0, N: 1},
		{K: "gauge", A: "A", Dur: H24, C: 2, N: 3},
		{K: "gauge", A: "B", Dur: H1, C: 1, Fut: true, N: 1},
		{K: "gauge", A: "B", Perp: true, Dur: H24, C: 1, Fut: true, N: 1},
		{K: "gauge", A: "A", Dur: H1, C: 1, N: 3},
		// starts exactly at the block time of the next epoch-end block (when `epoch` follows immediately)
		{K: "gauge", A: "B", Dur: H1, C: 0, Tie: true, N: 2},
	}
	locksBase := []Op{
		{K: "lock", A: "A", Amt: 100, Dur: H1},
		{K: "lock", A: "B", Amt: 333, Dur: H24},
		{K: "lock", A: "A", Amt: 333, Dur: H24},
		{K: "lock", A: "B", Amt: 100, Dur: H1},
	}
	adds := []Op{{K: "add", A: "A", C: 0}, {K: "add", A: "B", C: 1}}
	// CL worlds: external incentive gauges of the concentrated pool (no lock condition)
	clGauges := []Op{
		{K: "clgauge", A: "A", C: 2, N: 3},
		{K: "clgauge", A: "A", Perp: true, C: 0, N: 1},
		{K: "clgauge", A: "B", C: 1, Fut: true, N: 2},
		{K: "clgauge", A: "B", C: 4, N: 3},
		{K: "clgauge", A: "B", Perp: true, C: 1, Fut: true, N: 1},
		{K: "clgauge", A: "A", C: 0, N: 1},
	}
	swaps := []Op{{K: "swap", P: 0, Amt: 1000}, {K: "swap", P: 1, Amt: 3000}}
	groups := []Op{{K: "group", A: "A", C: 0}, {K: "group", A: "B", C: 2}}
	switch name {
	case "cl":
		// NoLock gauges next to one lock-based gauge and one lock (both kinds in the same epochs), top-ups of every
		// ledger gauge including the concentrated pool's internal gauge, swaps, one group, pool-incentives allocation
		return &Alphabet{Gauges: gaugesBase[:1], CLGauges: clGauges[:4], MaxGauges: 2, Adds: adds, Locks: locksBase[:1], MaxLocks: 1, NoLockMgmt: true, Tick: true,
			Swaps: swaps, Groups: groups[:1], MaxGroups: 1, Allocs: []Op{{K: "alloc", Amt: 1001}}}
	case "clwide":
		return &Alphabet{Gauges: gaugesBase[:2], CLGauges: clGauges, MaxGauges: 3, Adds: adds, Locks: locksBase[:2], MaxLocks: 2, Tick: true,
			Swaps: append(append([]Op{}, swaps...), Op{K: "swap", P: 0, Amt: 5000}), Groups: groups, MaxGroups: 2, Allocs: []Op{{K: "alloc", Amt: 1001}}}
	case "clnarrow":
		// deep runs: epochs, top-ups, swaps, allocation; nothing new is created
		return &Alphabet{MaxGauges: 0, Adds: adds, MaxLocks: 0, NoLockMgmt: true, Swaps: swaps, Allocs: []Op{{K: "alloc", Amt: 1001}}}
	case "base":
		return &Alphabet{Gauges: gaugesBase, MaxGauges: 2, Adds: adds, Locks: locksBase, MaxLocks: 4, Partial: 40, Tick: true}
	case "narrow":
		// deep runs (many epochs): epochs, top-ups, begin-unlock, receiver changes, one new-lock symbol; no new gauges
		return &Alphabet{Gauges: nil, MaxGauges: 0, Adds: adds, Locks: locksBase[3:4], MaxLocks: 3, Partial: 0, Tick: false}
	case "r1only":
		// precious configuration: only what is needed to put r1 in play
		return &Alphabet{Gauges: []Op{gaugesBase[5], gaugesBase[0]}, MaxGauges: 2, Adds: adds[1:], Locks: locksBase[:2], MaxLocks: 2, Tick: false}
	case "wide":
		g := append([]Op{}, gaugesBase...)
		for _, perp := range []bool{false, true} {
			for _, dur := range []int64{H1, H24} {
				for c := 0; c < 3; c++ {
					for _, fut := range []bool{false, true} {
						for _, n := range []uint64{1, 2, 3} {
							if perp && n != 1 {
								continue
							}
							o := Op{K: "gauge", A: "A", Perp: perp, Dur: dur, C: c, Fut: fut, N: n}
							dup := false
							for _, x := range g {
								y := x
								y.A = "A"
								if y == o {
									dup = true
								}
							}
							if !dup {
								g = append(g, o)
							}
						}
					}
				}
			}
		}
		l := append([]Op{}, locksBase...)
		l = append(l, Op{K: "lock", A: "A", Amt: 333, Dur: H1}, Op{K: "lock", A: "B", Amt: 100, Dur: H24},
			Op{K: "lock", A: "A", Amt: 100, Dur: H24}, Op{K: "lock", A: "B", Amt: 333, Dur: H1})
		return &Alphabet{Gauges: g, MaxGauges: 2, Adds: adds, Locks: l, MaxLocks: 4, Partial: 40, Back: true, Tick: true}
	}
	panic("unknown alphabet " + name)
}

func planFor(tier string) []run {
	if tier != "thorough" {
		return []run{
			{cfgPrecious, "init", 3, "r1only"},
			{cfgPrecious, "S0", 2, "r1only"},
			{cfgCheap, "S4", 2, "base"},
			{cfgCheap, "S5", 3, "base"},
			{cfgCheap, "S2", 3, "base"},
			{cfgCheap, "S3", 3, "base"},
			{cfgCheap, "init", 4, "base"},
			{cfgCheap, "S1", 4, "base"},
			{cfgCL, "N3", 3, "cl"},
			{cfgCL, "G2", 4, "clnarrow"},
			{cfgCL, "V0", 3, "cl"},
			{cfgCL, "N2", 3, "cl"},
			{cfgCL, "G1", 3, "cl"},
			{cfgCL, "init", 3, "cl"},
			{cfgCL, "N1", 4, "cl"},
		}
	}
	return []run{
		{cfgPrecious, "init", 4, "r1only"},
		{cfgPrecious, "S0", 3, "r1only"},
		{cfgCheap, "S4", 3, "base"},
		{cfgCheap, "S5", 4, "base"},
		{cfgCheap, "init", 3, "wide"},
		{cfgCheap, "S1", 3, "wide"},
		{cfgCheap, "init", 5, "base"},
		{cfgCheap, "S2", 5, "base"},
		{cfgCheap, "S3", 5, "base"},
		{cfgCheap, "S1", 5, "base"},
		{cfgCheap, "S3", 7, "narrow"},
		{cfgCheap, "S2", 7, "narrow"},
		{cfgCheap, "S1", 7, "narrow"},
		{cfgCL, "N3", 4, "cl"},
		{cfgCL, "G2", 5, "clnarrow"},
		{cfgCL, "V0", 4, "cl"},
		{cfgCL, "N2", 4, "cl"},
		{cfgCL, "G1", 4, "cl"},
		{cfgCL, "init", 4, "cl"},
		{cfgCL, "N1", 4, "cl"},
		{cfgCL, "init", 3, "clwide"},
		{cfgCL, "G1", 3, "clwide"},
		{cfgCL, "N1", 6, "clnarrow"},
		{cfgCL, "G1", 6, "clnarrow"},
	}
}

// seedOps drives the world from the base state to a named mid-life state through the same Apply path.
func seedOps(name string) []Op {
	switch name {
	case "init":
		return nil
	case "S1":
		// one active non-perpetual gauge (n=3, two reward denoms) after its first paying epoch, two locks of
		// different owners, sizes and durations
		return []Op{{K: "lock", A: "A", Amt: 100, Dur: H1}, {K: "lock", A: "B", Amt: 333, Dur: H24},
			{K: "gauge", A: "A", Dur: H1, C: 2, N: 3}, {K: "epoch"}}
	case "S0":
		// S1 before its first epoch (used by the precious configuration, where the first epoch already diverges)
		return []Op{{K: "lock", A: "A", Amt: 100, Dur: H1}, {K: "lock", A: "B", Amt: 333, Dur: H24},
			{K: "gauge", A: "A", Dur: H1, C: 2, N: 3}}
	case "S2":
		// perpetual gauge that has paid once and was topped up, a lock that is unlocking (24 h, so still locked), a
		// redirected receiver
		return []Op{{K: "lock", A: "A", Amt: 333, Dur: H24}, {K: "setrr", L: 0, To: "R"}, {K: "lock", A: "B", Amt: 100, Dur: H24},
			{K: "gauge", A: "A", Perp: true, Dur: H1, C: 0, N: 1}, {K: "unlock", L: 1}, {K: "epoch"}, {K: "add", A: "A", G: 0, C: 0}}
	case "S3":
		// upcoming gauge whose start lies after the next epoch end
		return []Op{{K: "lock", A: "A", Amt: 100, Dur: H24}, {K: "lock", A: "B", Amt: 333, Dur: H1},
			{K: "gauge", A: "B", Dur: H24, C: 1, Fut: true, N: 2}}
	case "S5":
		// a perpetual single-denom gauge that has been drained by its first epoch (small top-ups follow)
		return []Op{{K: "lock", A: "A", Amt: 100, Dur: H1}, {K: "gauge", A: "A", Perp: true, Dur: H1, C: 1, N: 1}, {K: "epoch"}}
	// CL worlds. Gauge indexes: g#0 = the concentrated pool's internal gauge, g#1 = the volume pool's internal gauge
	// (both made by pool creation), user gauges from g#2.
	case "N1":
		// a lock and a lock-based gauge next to an n=3 NoLock gauge with two reward denoms; first epoch paid by both kinds
		return []Op{{K: "lock", A: "A", Amt: 100, Dur: H1}, {K: "gauge", A: "A", Dur: H1, C: 0, N: 2},
			{K: "clgauge", A: "A", C: 2, N: 3}, {K: "epoch"}}
	case "N2":
		// a perpetual NoLock gauge that has paid once and was topped up; the internal gauge topped up by a user and by
		// pool-incentives
		return []Op{{K: "clgauge", A: "A", Perp: true, C: 0, N: 1}, {K: "epoch"}, {K: "add", A: "A", G: 2, C: 0},
			{K: "add", A: "B", G: 0, C: 1}, {K: "alloc", Amt: 1001}}
	case "N3":
		// an upcoming n=2 NoLock gauge whose start lies after the next epoch end
		return []Op{{K: "clgauge", A: "B", C: 1, Fut: true, N: 2}}
	case "V0":
		// volume on both member pools, nothing else (a group can be created at once)
		return []Op{{K: "swap", P: 0, Amt: 1000}, {K: "swap", P: 1, Amt: 3000}}
	case "G1":
		// volume on both member pools, a perpetual group (through MsgCreateGroup) that has split once and was topped up
		return []Op{{K: "swap", P: 0, Amt: 1000}, {K: "swap", P: 1, Amt: 3000}, {K: "group", A: "A", C: 0}, {K: "epoch"},
			{K: "add", A: "A", G: 2, C: 0}, {K: "swap", P: 0, Amt: 1000}}
	case "G2":
		// a non-perpetual group (n=3, two denoms) - only constructible at keeper level, the message refuses n != 0 -
		// next to an n=3 NoLock gauge
		return []Op{{K: "swap", P: 0, Amt: 1000}, {K: "swap", P: 1, Amt: 3000}, {K: "kgroup", A: "A", C: 2, N: 3},
			{K: "clgauge", A: "B", C: 2, N: 3}}
	case "S4":
		// a gauge holding r2 whose route is then removed (keeper-level step): r2 is "not valuable at all"
		return []Op{{K: "lock", A: "A", Amt: 100, Dur: H1}, {K: "lock", A: "B", Amt: 333, Dur: H1},
			{K: "gauge", A: "A", Perp: true, Dur: H1, C: 3, N: 1}, {K: "rmr2"}}
	}
	panic("unknown seed " + name)
}

// A divergence while a seed is being composed is reported like any other (replay = the seed with no further
// ops); only a refused seed op is a harness error.
func buildSeed(w *World, name string, fail func(a, s, d string)) (sdk.Context, *Ledger, error) {
	ctx, _ := w.Base.CacheContext()
	l := w.NewLedger()
	for _, op := range seedOps(name) {
		var out string
		ctx, out = w.Apply(ctx, l, op, fail)
		if out != "ok" {
			return ctx, l, fmt.Errorf("seed %s: op %s: %s", name, op, out)
		}
	}
	l.Steps = 0
	return ctx, l, nil
}

type replayCfg struct {
	Config Config `json:"config"`
	Seed   string `json:"seed_state"`
	Ops    []Op   `json:"ops"`
}

func runReplay(f *core.Flags, r *core.Result) {
	var rp replayCfg
	core.ReadReplay(f.Replay, &rp)
	w := NewWorld(rp.Config, r)
	w.Debug = true
	defer w.Env.Close()
	fmt.Printf("config %s thresholds: uosmo>=%d r1>=%d r2>=%d\n", rp.Config, w.Min[0], w.Min[1], w.Min[2])
	fail := func(a, s, d string) {
		r.AddViolation(core.Violation{Property: f.Prop, Assertion: a, Signature: s, Detail: d, Replay: rp})
	}
	ctx, _ := w.Base.CacheContext()
	l := w.NewLedger()
	step := func(tag string, i int, op Op) {
		var out string
		ctx, out = w.Apply(ctx, l, op, fail)
		fmt.Printf("%s %d %s -> %s   [t=%s h=%d]\n", tag, i, op, out, ctx.BlockTime().Format("15:04:05"), ctx.BlockHeight())
		w.Check(ctx, l, fail)
		for _, n := range w.Tracked {
			fmt.Printf("     %s: %s", n, w.bal(ctx, w.addr(n)))
		}
		fmt.Printf("  module: %s\n", w.bal(ctx, w.IncAddr))
		for _, g := range l.Gauges {
			rec, _ := w.App.IncentivesKeeper.GetGaugeByID(ctx, g.ID)
			if rec == nil {
				rec = &inctypes.Gauge{}
			}
			fmt.Printf("     %s gauge %d perp=%v >=%s n=%d: ledger{%s coins=%s dist=%s filled=%d empty=%d gone=%v} module{coins=%s dist=%s filled=%d}\n",
				kindName[g.Kind], g.ID, g.Perp, g.Dur, g.N, stName[g.Status], g.Coins, g.Dist, g.Filled, g.Empty, g.Gone, rec.Coins, rec.DistributedCoins, rec.FilledEpochs)
		}
		r.Transitions++
		r.States++
	}
	for i, op := range seedOps(rp.Seed) {
		step("seed", i, op)
	}
	for i, op := range rp.Ops {
		step("step", i, op)
	}
	r.Traces++
}

func main() {
	storesFlag := flag.String("stores", "", "development aid: 'all' hashes every KV store instead of the scenario's list")
	f := core.ParseFlags()
	r := core.NewResult(f.Prop)
	debug.SetGCPercent(400)
	if f.Prop != "C09" {
		fmt.Fprintln(os.Stderr, "gauges09: unknown property", f.Prop)
		os.Exit(2)
	}
	if f.Replay != "" {
		runReplay(f, r)
		core.Finish(f, r)
		return
	}
	plan := planFor(f.Tier)
	hashed := stores
	if *storesFlag == "all" {
		hashed = nil
		r.Extra["stores_hashed"] = "all"
	}
	allSeen := core.NewSeen()
	worlds := map[string]*World{}
	completed := map[string]interface{}{}
	unbuildable := map[string]bool{}
	var names []string
	alphas := map[string]interface{}{}
	for ri, rn := range plan {
		w := worlds[rn.Cfg.Name]
		if _, bad := unbuildable[rn.Cfg.Name]; bad {
			continue
		}
		if w == nil {
			// the world is composed through real messages (pools, positions, parameters); if the code under test refuses
			// one of them the configuration is skipped, visibly, like an unbuildable seed
			func() {
				defer func() {
					if p := recover(); p != nil {
						fmt.Fprintln(os.Stderr, "harness: configuration cannot be built, skipped:", rn.Cfg.Name, p)
						unbuildable[rn.Cfg.Name] = true
						r.Rejected["configuration-unbuildable: "+rn.Cfg.Name]++
						r.Exhaustive = false
					}
				}()
				w = NewWorld(rn.Cfg, r)
			}()
			if w == nil || unbuildable[rn.Cfg.Name] {
				continue
			}
			worlds[rn.Cfg.Name] = w
			r.Extra["thresholds_"+rn.Cfg.Name] = fmt.Sprintf("uosmo>=%d r1>=%d r2>=%d", w.Min[0], w.Min[1], w.Min[2])
		}
		al := alphabet(rn.Alpha)
		if _, ok := alphas[rn.Alpha]; !ok {
			bz, _ := json.Marshal(al)
			alphas[rn.Alpha] = string(bz)
		}
		names = append(names, rn.name())
		if rn.Cfg.CL && hashed != nil {
			hashed = storesCL
		} else if hashed != nil {
			hashed = stores
		}
		sc := &core.Scenario[Op, *Ledger]{
			App: w.App, Stores: hashed, Config: rn.Cfg,
			Enabled:   w.Enabled(al),
			Apply:     w.Apply,
			Check:     w.Check,
			LedgerKey: func(l *Ledger) []byte { return l.Key() },
		}
		rn := rn
		ctx, l, err := buildSeed(w, rn.Seed, func(a, s, d string) {
			if s == "" {
				s = "seed:" + rn.Cfg.Name + "/" + rn.Seed
			}
			r.AddViolation(core.Violation{Property: f.Prop, Assertion: a, Signature: s, Detail: "while composing seed " + rn.Seed + ": " + d,
				Replay: replayCfg{Config: rn.Cfg, Seed: rn.Seed, Ops: []Op{}}})
		})
		if err != nil {
			// On the tree this harness was written against every seed builds (checked whenever the harness changes).
			// If the code under test now refuses a step of a seed, that seed is skipped - visibly - and the other runs
			// go on: the statement does not promise that these requests are accepted, and one refused step must not
			// silence the whole check.
			fmt.Fprintln(os.Stderr, "harness: seed cannot be built, skipped:", err)
			r.Rejected["seed-unbuildable: "+rn.Cfg.Name+"/"+rn.Seed]++
			r.Exhaustive = false
			continue
		}
		ex := core.NewExplorer(sc, f, r)
		was, t0 := r.Exhaustive, r.Transitions
		w0 := time.Now()
		ex.Run(rn.Seed, ctx, l, rn.Depth)
		completed["max_wall_s "+rn.name()] = float64(int(time.Since(w0).Seconds()*10)) / 10
		if r.Exhaustive && was {
			completed["sum_completed "+rn.name()] = 1
		}
		completed["sum_transitions "+rn.name()] = r.Transitions - t0
		for k := range ex.Seen {
			var h [32]byte
			copy(h[:], k[:])
			h[15] ^= byte(ri + 1)
			allSeen.Add(h)
		}
		if f.Expired() {
			r.Exhaustive = false
			break
		}
	}
	for _, w := range worlds {
		w.Env.Close()
	}
	allSeen.Dump(f.HashOut)
	r.Extra["runs"] = names
	r.Extra["alphabets"] = alphas
	for k, v := range completed {
		r.Extra[k] = v
	}
	r.Outcomes = int64(len(r.Rejected) + 1)
	core.Finish(f, r)
}
