// Command gauges09 is the ledger explorer for property C09 (incentive gauges pay pro-rata, on schedule,
// and never more than they hold). See DESIGN.md §5 C09 and §7 F-9.
package main

import (
	"encoding/json"
	"flag"
	"fmt"
	"os"
	"runtime/debug"
	"time"

	sdk "github.com/cosmos/cosmos-sdk/types"

	"github.com/osmosis-labs/osmosis/v31/zzverif/core"
)

const (
	H1  = int64(time.Hour)
	H24 = int64(24 * time.Hour)
)

var cfgCheap = Config{Name: "cheap", MinValue: 10, PoolUosmo: 1000000, PoolR1: 3000000, R2Pool: 1000000}

// r1 is worth 10^6 uosmo per unit: the minimum (10 uosmo) buys less than one unit of it.
var cfgPrecious = Config{Name: "precious", MinValue: 10, PoolUosmo: 1000000000, PoolR1: 1000, R2Pool: 1000000}

// run is one exploration: configuration x seed x depth x alphabet.
type run struct {
	Cfg   Config
	Seed  string
	Depth int
	Alpha string
}

func (r run) name() string { return fmt.Sprintf("%s/%s/d%d/%s", r.Cfg.Name, r.Seed, r.Depth, r.Alpha) }

func alphabet(name string) *Alphabet {
	gaugesBase := []Op{
		{K: "gauge", A: "A", Dur: H1, C: 0, N: 2},
		{K: "gauge", A: "A", Perp: true, Dur: H1, C: 0, N: 1},
		{K: "gauge", A: "A", Dur: H24, C: 2, N: 3},
		{K: "gauge", A: "B", Dur: H1, C: 1, Fut: true, N: 1},
		{K: "gauge", A: "B", Perp: true, Dur: H24, C: 1, Fut: true, N: 1},
		{K: "gauge", A: "A", Dur: H1, C: 1, N: 3},
	}
	locksBase := []Op{
		{K: "lock", A: "A", Amt: 100, Dur: H1},
		{K: "lock", A: "B", Amt: 333, Dur: H24},
		{K: "lock", A: "A", Amt: 333, Dur: H24},
		{K: "lock", A: "B", Amt: 100, Dur: H1},
	}
	adds := []Op{{K: "add", A: "A", C: 0}, {K: "add", A: "B", C: 1}}
	switch name {
	case "base":
		return &Alphabet{Gauges: gaugesBase, MaxGauges: 2, Adds: adds, Locks: locksBase, MaxLocks: 4, Partial: 40, Tick: true}
	case "narrow":
		// deep runs (many epochs): epochs, top-ups, begin-unlock, receiver changes, one new-lock symbol; no new gauges
		return &Alphabet{Gauges: nil, MaxGauges: 0, Adds: adds, Locks: locksBase[3:4], MaxLocks: 3, Partial: 0, Tick: false}
	case "r1only":
		// precious configuration: only what is needed to put r1 in play
		return &Alphabet{Gauges: []Op{gaugesBase[5], gaugesBase[0]}, MaxGauges: 2, Adds: adds[1:], Locks: locksBase[:2], MaxLocks: 2, Tick: false}
	case "wide":
		g := append([]Op{}, gaugesBase...)
		for _, perp := range []bool{false, true} {
			for _, dur := range []int64{H1, H24} {
				for c := 0; c < 3; c++ {
					for _, fut := range []bool{false, true} {
						for _, n := range []uint64{1, 2, 3} {
							if perp && n != 1 {
								continue
							}
							o := Op{K: "gauge", A: "A", Perp: perp, Dur: dur, C: c, Fut: fut, N: n}
							dup := false
							for _, x := range g {
								y := x
								y.A = "A"
								if y == o {
									dup = true
								}
							}
							if !dup {
								g = append(g, o)
							}
						}
					}
				}
			}
		}
		l := append([]Op{}, locksBase...)
		l = append(l, Op{K: "lock", A: "A", Amt: 333, Dur: H1}, Op{K: "lock", A: "B", Amt: 100, Dur: H24},
			Op{K: "lock", A: "A", Amt: 100, Dur: H24}, Op{K: "lock", A: "B", Amt: 333, Dur: H1})
		return &Alphabet{Gauges: g, MaxGauges: 2, Adds: adds, Locks: l, MaxLocks: 4, Partial: 40, Back: true, Tick: true}
	}
	panic("unknown alphabet " + name)
}

func planFor(tier string) []run {
	if tier != "thorough" {
		return []run{
			{cfgPrecious, "init", 3, "r1only"},
			{cfgPrecious, "S0", 2, "r1only"},
			{cfgCheap, "S4", 2, "base"},
			{cfgCheap, "S5", 3, "base"},
			{cfgCheap, "S2", 3, "base"},
			{cfgCheap, "S3", 3, "base"},
			{cfgCheap, "init", 4, "base"},
			{cfgCheap, "S1", 4, "base"},
		}
	}
	return []run{
		{cfgPrecious, "init", 4, "r1only"},
		{cfgPrecious, "S0", 3, "r1only"},
		{cfgCheap, "S4", 3, "base"},
		{cfgCheap, "S5", 4, "base"},
		{cfgCheap, "init", 3, "wide"},
		{cfgCheap, "S1", 3, "wide"},
		{cfgCheap, "init", 5, "base"},
		{cfgCheap, "S2", 5, "base"},
		{cfgCheap, "S3", 5, "base"},
		{cfgCheap, "S1", 5, "base"},
		{cfgCheap, "S3", 7, "narrow"},
		{cfgCheap, "S2", 7, "narrow"},
		{cfgCheap, "S1", 7, "narrow"},
	}
}

// seedOps drives the world from the base state to a named mid-life state through the same Apply path.
func seedOps(name string) []Op {
	switch name {
	case "init":
		return nil
	case "S1":
		// one active non-perpetual gauge (n=3, two reward denoms) after its first paying epoch, two locks of
		// different owners, sizes and durations
		return []Op{{K: "lock", A: "A", Amt: 100, Dur: H1}, {K: "lock", A: "B", Amt: 333, Dur: H24},
			{K: "gauge", A: "A", Dur: H1, C: 2, N: 3}, {K: "epoch"}}
	case "S0":
		// S1 before its first epoch (used by the precious configuration, where the first epoch already diverges)
		return []Op{{K: "lock", A: "A", Amt: 100, Dur: H1}, {K: "lock", A: "B", Amt: 333, Dur: H24},
			{K: "gauge", A: "A", Dur: H1, C: 2, N: 3}}
	case "S2":
		// perpetual gauge that has paid once and was topped up, a lock that is unlocking (24 h, so still locked), a
		// redirected receiver
		return []Op{{K: "lock", A: "A", Amt: 333, Dur: H24}, {K: "setrr", L: 0, To: "R"}, {K: "lock", A: "B", Amt: 100, Dur: H24},
			{K: "gauge", A: "A", Perp: true, Dur: H1, C: 0, N: 1}, {K: "unlock", L: 1}, {K: "epoch"}, {K: "add", A: "A", G: 0, C: 0}}
	case "S3":
		// upcoming gauge whose start lies after the next epoch end
		return []Op{{K: "lock", A: "A", Amt: 100, Dur: H24}, {K: "lock", A: "B", Amt: 333, Dur: H1},
			{K: "gauge", A: "B", Dur: H24, C: 1, Fut: true, N: 2}}
	case "S5":
		// a perpetual single-denom gauge that has been drained by its first epoch (small top-ups follow)
		return []Op{{K: "lock", A: "A", Amt: 100, Dur: H1}, {K: "gauge", A: "A", Perp: true, Dur: H1, C: 1, N: 1}, {K: "epoch"}}
	case "S4":
		// a gauge holding r2 whose route is then removed (keeper-level step): r2 is "not valuable at all"
		return []Op{{K: "lock", A: "A", Amt: 100, Dur: H1}, {K: "lock", A: "B", Amt: 333, Dur: H1},
			{K: "gauge", A: "A", Perp: true, Dur: H1, C: 3, N: 1}, {K: "rmr2"}}
	}
	panic("unknown seed " + name)
}

// A divergence while a seed is being composed is reported like any other (replay = the seed with no further
// ops); only a refused seed op is a harness error.
func buildSeed(w *World, name string, fail func(a, s, d string)) (sdk.Context, *Ledger, error) {
	ctx, _ := w.Base.CacheContext()
	l := &Ledger{}
	for _, op := range seedOps(name) {
		var out string
		ctx, out = w.Apply(ctx, l, op, fail)
		if out != "ok" {
			return ctx, l, fmt.Errorf("seed %s: op %s: %s", name, op, out)
		}
	}
	l.Steps = 0
	return ctx, l, nil
}

type replayCfg struct {
	Config Config `json:"config"`
	Seed   string `json:"seed_state"`
	Ops    []Op   `json:"ops"`
}

func runReplay(f *core.Flags, r *core.Result) {
	var rp replayCfg
	core.ReadReplay(f.Replay, &rp)
	w := NewWorld(rp.Config, r)
	w.Debug = true
	defer w.Env.Close()
	fmt.Printf("config %s thresholds: uosmo>=%d r1>=%d r2>=%d\n", rp.Config, w.Min[0], w.Min[1], w.Min[2])
	fail := func(a, s, d string) {
		r.AddViolation(core.Violation{Property: f.Prop, Assertion: a, Signature: s, Detail: d, Replay: rp})
	}
	ctx, _ := w.Base.CacheContext()
	l := &Ledger{}
	step := func(tag string, i int, op Op) {
		var out string
		ctx, out = w.Apply(ctx, l, op, fail)
		fmt.Printf("%s %d %s -> %s   [t=%s h=%d]\n", tag, i, op, out, ctx.BlockTime().Format("15:04:05"), ctx.BlockHeight())
		w.Check(ctx, l, fail)
		for _, n := range Accounts {
			fmt.Printf("     %s: %s", n, w.bal(ctx, core.Acc(n)))
		}
		fmt.Printf("  module: %s\n", w.bal(ctx, w.IncAddr))
		for _, g := range l.Gauges {
			rec, _ := w.App.IncentivesKeeper.GetGaugeByID(ctx, g.ID)
			fmt.Printf("     gauge %d perp=%v >=%s n=%d: ledger{%s coins=%s dist=%s filled=%d empty=%d} module{coins=%s dist=%s filled=%d}\n",
				g.ID, g.Perp, g.Dur, g.N, stName[g.Status], g.Coins, g.Dist, g.Filled, g.Empty, rec.Coins, rec.DistributedCoins, rec.FilledEpochs)
		}
		r.Transitions++
		r.States++
	}
	for i, op := range seedOps(rp.Seed) {
		step("seed", i, op)
	}
	for i, op := range rp.Ops {
		step("step", i, op)
	}
	r.Traces++
}

func main() {
	storesFlag := flag.String("stores", "", "development aid: 'all' hashes every KV store instead of the scenario's list")
	f := core.ParseFlags()
	r := core.NewResult(f.Prop)
	debug.SetGCPercent(400)
	if f.Prop != "C09" {
		fmt.Fprintln(os.Stderr, "gauges09: unknown property", f.Prop)
		os.Exit(2)
	}
	if f.Replay != "" {
		runReplay(f, r)
		core.Finish(f, r)
		return
	}
	plan := planFor(f.Tier)
	hashed := stores
	if *storesFlag == "all" {
		hashed = nil
		r.Extra["stores_hashed"] = "all"
	}
	allSeen := core.NewSeen()
	worlds := map[string]*World{}
	completed := map[string]interface{}{}
	var names []string
	alphas := map[string]interface{}{}
	for ri, rn := range plan {
		w := worlds[rn.Cfg.Name]
		if w == nil {
			w = NewWorld(rn.Cfg, r)
			worlds[rn.Cfg.Name] = w
			r.Extra["thresholds_"+rn.Cfg.Name] = fmt.Sprintf("uosmo>=%d r1>=%d r2>=%d", w.Min[0], w.Min[1], w.Min[2])
		}
		al := alphabet(rn.Alpha)
		if _, ok := alphas[rn.Alpha]; !ok {
			bz, _ := json.Marshal(al)
			alphas[rn.Alpha] = string(bz)
		}
		names = append(names, rn.name())
		sc := &core.Scenario[Op, *Ledger]{
			App: w.App, Stores: hashed, Config: rn.Cfg,
			Enabled:   w.Enabled(al),
			Apply:     w.Apply,
			Check:     w.Check,
			LedgerKey: func(l *Ledger) []byte { return l.Key() },
		}
		rn := rn
		ctx, l, err := buildSeed(w, rn.Seed, func(a, s, d string) {
			if s == "" {
				s = "seed:" + rn.Cfg.Name + "/" + rn.Seed
			}
			r.AddViolation(core.Violation{Property: f.Prop, Assertion: a, Signature: s, Detail: "while composing seed " + rn.Seed + ": " + d,
				Replay: replayCfg{Config: rn.Cfg, Seed: rn.Seed, Ops: []Op{}}})
		})
		if err != nil {
			fmt.Fprintln(os.Stderr, "harness: seed cannot be built:", err)
			os.Exit(2)
		}
		ex := core.NewExplorer(sc, f, r)
		was, t0 := r.Exhaustive, r.Transitions
		ex.Run(rn.Seed, ctx, l, rn.Depth)
		if r.Exhaustive && was {
			completed["sum_completed "+rn.name()] = 1
		}
		completed["sum_transitions "+rn.name()] = r.Transitions - t0
		for k := range ex.Seen {
			var h [32]byte
			copy(h[:], k[:])
			h[15] ^= byte(ri + 1)
			allSeen.Add(h)
		}
		if f.Expired() {
			r.Exhaustive = false
			break
		}
	}
	for _, w := range worlds {
		w.Env.Close()
	}
	allSeen.Dump(f.HashOut)
	r.Extra["runs"] = names
	r.Extra["alphabets"] = alphas
	for k, v := range completed {
		r.Extra[k] = v
	}
	r.Outcomes = int64(len(r.Rejected) + 1)
	core.Finish(f, r)
}
