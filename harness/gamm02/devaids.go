package main

import (
	"fmt"
	"os"
	"sort"

	sdk "github.com/cosmos/cosmos-sdk/types"

	"github.com/osmosis-labs/osmosis/v31/zzverif/core"
)

// Development aids (never active in a registered run): they justify the restricted store list used for the
// canonical state hash.
//
//	VERIF_C02_STOREDIFF=1  reports which KV stores ever differ from their genesis content in a visited state
//	VERIF_C02_HASHCHECK=1  hashes every visited state with the restricted list AND with all stores and fails (exit 2)
//	                       if two states agree on the restricted hash but not on the full one
type devAids struct {
	storeDiff bool
	hashCheck bool
	base      map[string][32]byte
	changed   map[string]int
	partition map[[32]byte][32]byte
	checked   int
}

var dev = devAids{storeDiff: os.Getenv("VERIF_C02_STOREDIFF") != "", hashCheck: os.Getenv("VERIF_C02_HASHCHECK") != "",
	changed: map[string]int{}, partition: map[[32]byte][32]byte{}}

func (d *devAids) newWorld(w *World) {
	d.partition = map[[32]byte][32]byte{} // configurations differ in the params store and are never merged
	if !d.storeDiff {
		return
	}
	d.base = map[string][32]byte{}
	for _, n := range core.StoreNames(w.App) {
		d.base[n] = core.StateHash(w.App, w.Env.Ctx.WithBlockHeight(0).WithBlockTime(core.GenesisTime), []string{n})
	}
}

func (d *devAids) visit(w *World, ctx sdk.Context, stores []string) {
	if d.storeDiff {
		for _, n := range core.StoreNames(w.App) {
			if core.StateHash(w.App, ctx.WithBlockHeight(0).WithBlockTime(core.GenesisTime), []string{n}) != d.base[n] {
				d.changed[n]++
			}
		}
	}
	if d.hashCheck && stores != nil {
		r := core.StateHash(w.App, ctx, stores)
		a := core.StateHash(w.App, ctx, nil)
		if prev, ok := d.partition[r]; ok && prev != a {
			fmt.Fprintln(os.Stderr, "harness: two states agree on the restricted store hash but differ in some other store")
			os.Exit(2)
		}
		d.partition[r] = a
		d.checked++
	}
}

func (d *devAids) report() {
	if d.storeDiff {
		var ns []string
		for n := range d.changed {
			ns = append(ns, n)
		}
		sort.Strings(ns)
		fmt.Fprintln(os.Stderr, "stores that ever differed from genesis:", ns, d.changed)
	}
	if d.hashCheck {
		fmt.Fprintln(os.Stderr, "hash partition check passed on", d.checked, "state visits,", len(d.partition), "distinct states")
	}
}
