package main

import (
	"fmt"
	"sort"
	"strings"
	"time"

	sdkmath "cosmossdk.io/math"
	sdk "github.com/cosmos/cosmos-sdk/types"
	authtypes "github.com/cosmos/cosmos-sdk/x/auth/types"
	banktypes "github.com/cosmos/cosmos-sdk/x/bank/types"
	distrtypes "github.com/cosmos/cosmos-sdk/x/distribution/types"
	"github.com/cosmos/gogoproto/proto"

	"github.com/osmosis-labs/osmosis/osmomath"
	"github.com/osmosis-labs/osmosis/v31/app"
	"github.com/osmosis-labs/osmosis/v31/x/gamm/pool-models/balancer"
	"github.com/osmosis-labs/osmosis/v31/x/gamm/pool-models/stableswap"
	gammtypes "github.com/osmosis-labs/osmosis/v31/x/gamm/types"
	pmtypes "github.com/osmosis-labs/osmosis/v31/x/poolmanager/types"
	txfeestypes "github.com/osmosis-labs/osmosis/v31/x/txfees/types"

	"github.com/osmosis-labs/osmosis/v31/zzverif/core"
)

// ---------------------------------------------------------------------------------------------
// configuration (outer loop)
// ---------------------------------------------------------------------------------------------

type PairFee struct {
	In  string `json:"in"`
	Out string `json:"out"`
	Fee string `json:"fee"`
}

// Config is one taker-fee setting. The default taker fee is written with the poolmanager keeper's
// parameter setter; per-pair fees either with the admin message MsgSetDenomPairTakerFee (sender A is
// put on the admin list first) or with the keeper's SetDenomPairTakerFee.
type Config struct {
	Name            string    `json:"name"`
	DefaultTakerFee string    `json:"default_taker_fee"`
	PairFees        []PairFee `json:"pair_fees,omitempty"`
	ViaAdminMsg     bool      `json:"pair_fees_via_admin_msg,omitempty"`
}

func (c Config) String() string { return c.Name }

func (c Config) takerFee(in, out string) osmomath.Dec {
	for _, p := range c.PairFees {
		if p.In == in && p.Out == out {
			return osmomath.MustNewDecFromStr(p.Fee)
		}
	}
	if c.DefaultTakerFee == "" {
		return osmomath.ZeroDec()
	}
	return osmomath.MustNewDecFromStr(c.DefaultTakerFee)
}

// ---------------------------------------------------------------------------------------------
// operations
// ---------------------------------------------------------------------------------------------

// Hop is one step of a route, fully explicit so that a replay needs nothing but the op list.
type Hop struct {
	P uint64 `json:"p"`
	I string `json:"i"`
	O string `json:"o"`
}

// Op is one symbol of the alphabet, concrete (pool ids, denoms, amounts are literal).
//
//	create  C=template, A=creator
//	join    exact shares X into pool P by A, token-in maxima = Y percent of the pool's initial reserves (0: none given)
//	jswapin single-asset join: X of D into P by A
//	jshare  single-asset join for exactly X shares paying D (max Y)
//	exit    proportional exit of X shares of P by A
//	eshare  exit X shares of P, everything swapped into D
//	eextern exit for exactly X of D, at most Y shares
//	exitall A exits every share of P the ledger says it holds
//	swapin  A swaps X of R[0].I along R (min-out Y)
//	swapout A buys X of R[last].O along R (max-in Y)
//	split   A swaps X along R and X2 along R2 (same in and out denoms)
//	send    bank send of X D from A straight to the pool address of P
//	tick    block boundary, T = index into dts
//	tx      atomic [join X shares of P by A ; exit Y shares of P by A] - the second message is built to fail
type Op struct {
	K  string `json:"k"`
	A  string `json:"a,omitempty"`
	P  uint64 `json:"p,omitempty"`
	D  string `json:"d,omitempty"`
	X  string `json:"x,omitempty"`
	Y  string `json:"y,omitempty"`
	R  []Hop  `json:"r,omitempty"`
	R2 []Hop  `json:"r2,omitempty"`
	X2 string `json:"x2,omitempty"`
	T  int    `json:"t,omitempty"`
	C  int    `json:"c,omitempty"`
}

func (o Op) String() string {
	s := o.K + "{"
	if o.A != "" {
		s += "a=" + o.A + " "
	}
	if o.P != 0 {
		s += fmt.Sprintf("p=%d ", o.P)
	}
	if o.K == "create" {
		s += fmt.Sprintf("c=%d(%s) ", o.C, templates[o.C].Name)
	}
	if o.D != "" {
		s += "d=" + o.D + " "
	}
	if o.X != "" {
		s += "x=" + o.X + " "
	}
	if o.Y != "" {
		s += "y=" + o.Y + " "
	}
	if len(o.R) > 0 {
		s += "r=" + routeStr(o.R) + " "
	}
	if len(o.R2) > 0 {
		s += "x2=" + o.X2 + " r2=" + routeStr(o.R2) + " "
	}
	if o.K == "tick" {
		s += "dt=" + dts[o.T].String()
	}
	return strings.TrimSpace(s) + "}"
}

func routeStr(r []Hop) string {
	var b []string
	for _, h := range r {
		b = append(b, fmt.Sprintf("%s-[%d]->%s", h.I, h.P, h.O))
	}
	return strings.Join(b, ",")
}

var dts = []time.Duration{5 * time.Second, 25 * time.Hour, time.Hour + time.Second}

// Template is a pool-creation request.
type Template struct {
	Name    string
	Kind    string // bal | stable
	Coins   [][2]string
	Weights []int64
	Scaling []uint64
	Fee     string
}

var templates = []Template{
	0: {Name: "bal foo/bar 1:1 fee0.003", Kind: "bal", Coins: [][2]string{{"foo", "1000000"}, {"bar", "5000000"}}, Weights: []int64{1, 1}, Fee: "0.003"},
	1: {Name: "bal bar/baz 1:4 fee0", Kind: "bal", Coins: [][2]string{{"bar", "2000000"}, {"baz", "8000000"}}, Weights: []int64{1, 4}, Fee: "0"},
	2: {Name: "bal foo/bar/baz 1:2:7 fee0.003", Kind: "bal", Coins: [][2]string{{"foo", "1000000"}, {"bar", "2000000"}, {"baz", "7000000"}}, Weights: []int64{1, 2, 7}, Fee: "0.003"},
	3: {Name: "stable foo/bar sf1,1 fee0.003", Kind: "stable", Coins: [][2]string{{"bar", "5000000"}, {"foo", "5000000"}}, Scaling: []uint64{1, 1}, Fee: "0.003"},
	4: {Name: "stable bar/baz sf1,10 fee0", Kind: "stable", Coins: [][2]string{{"bar", "1000000"}, {"baz", "10000000"}}, Scaling: []uint64{1, 10}, Fee: "0"},
	5: {Name: "stable baz/foo sf1,1000000 fee0.003", Kind: "stable", Coins: [][2]string{{"baz", "2000000"}, {"foo", "3000000000000"}}, Scaling: []uint64{1, 1000000}, Fee: "0.003"},
	6: {Name: "stable bar/baz/foo sf10,1,1 fee0.003", Kind: "stable", Coins: [][2]string{{"bar", "40000000"}, {"baz", "4000000"}, {"foo", "4000000"}}, Scaling: []uint64{10, 1, 1}, Fee: "0.003"},
	7: {Name: "bal uosmo/foo 1:1 fee0.003", Kind: "bal", Coins: [][2]string{{"uosmo", "50000000"}, {"foo", "1000000"}}, Weights: []int64{1, 1}, Fee: "0.003"},
	8: {Name: "bal bar/baz/foo/uosmo 3:1:5:2 fee0.001", Kind: "bal", Coins: [][2]string{{"bar", "3000000"}, {"baz", "1000000"}, {"foo", "5000000"}, {"uosmo", "20000000"}}, Weights: []int64{3, 1, 5, 2}, Fee: "0.001"},
	9: {Name: "bal 8 assets fee0.002", Kind: "bal", Coins: [][2]string{{"bar", "3000000"}, {"baz", "1000000"}, {"foo", "5000000"}, {"uosmo", "20000000"},
		{"qaa", "1000000"}, {"qbb", "2000000"}, {"qcc", "3000000"}, {"qdd", "4000000"}}, Weights: []int64{3, 1, 5, 2, 1, 1, 4, 8}, Fee: "0.002"},
	// thin pools (a reserve of a few thousand units or less): targets of the whale swaps, whose output is the whole
	// out-reserve or all but a fraction of a unit of it
	10: {Name: "bal bar/baz thin 2:1 fee0", Kind: "bal", Coins: [][2]string{{"bar", "100"}, {"baz", "3000000"}}, Weights: []int64{2, 1}, Fee: "0"},
	11: {Name: "bal foo/bar thin 1:1 fee0.003", Kind: "bal", Coins: [][2]string{{"foo", "5000"}, {"bar", "6060"}}, Weights: []int64{1, 1}, Fee: "0.003"},
	// 18-decimal-scale reserves of very different size: share ratios are not representable in 18 decimals, so the
	// keeper's and the pool model's computations of the tokens an all-asset join takes must round alike
	12: {Name: "bal bar/baz big 1:1 fee0.003", Kind: "bal", Coins: [][2]string{{"bar", "1000000000000000000000000"}, {"baz", "2000000000000000000"}}, Weights: []int64{1, 1}, Fee: "0.003"},
	// one reserve just below 10^18 beside a much larger one: the band in which truncating a share ratio to 18 decimals can
	// move the tokens taken by one unit
	14: {Name: "bal bar/baz mid 1:1 fee0.003", Kind: "bal", Coins: [][2]string{{"bar", "7300000000000000000011"}, {"baz", "500000000000000137"}}, Weights: []int64{1, 1}, Fee: "0.003"},
	13: {Name: "stable bar/baz big sf1,1 fee0.001", Kind: "stable", Coins: [][2]string{{"bar", "3000000000000000000000000"}, {"baz", "3000000000000000000000000"}}, Scaling: []uint64{1, 1}, Fee: "0.001"},
}

// oddShares is a share amount (12.3 of the initial 100) whose ratio to any share supply is not representable in 18 decimals.
const oddShares = "12345678901234567891"

func (p PoolRec) big() bool {
	for _, c := range p.Init {
		if c.Amount.GTE(sdkmath.NewIntWithDecimal(1, 18)) {
			return true
		}
	}
	return false
}

// whale is a swap amount nine and more orders of magnitude above a thin pool's reserves.
const whale = "10000000000000"

func (p PoolRec) thin() bool {
	for _, c := range p.Init {
		if c.Amount.LT(sdkmath.NewInt(10000)) {
			return true
		}
	}
	return false
}

// ---------------------------------------------------------------------------------------------
// reference ledger (built from requests and responses only)
// ---------------------------------------------------------------------------------------------

type PoolRec struct {
	ID      uint64
	Kind    string
	Creator string
	Denoms  []string  // sorted
	Init    sdk.Coins // initial reserves (request)
	Addr    sdk.AccAddress
	Direct  sdk.Coins // tokens sent straight to the pool address with bank.MsgSend
}

func (p PoolRec) has(d string) bool {
	for _, x := range p.Denoms {
		if x == d {
			return true
		}
	}
	return false
}

// pct returns n percent of the pool's initial reserve of d (at least 1).
func (p PoolRec) pct(d string, n int64) sdkmath.Int {
	v := p.Init.AmountOf(d).MulRaw(n).QuoRaw(100)
	if !v.IsPositive() {
		v = sdkmath.OneInt()
	}
	return v
}

type Ledger struct {
	Pools  []PoolRec
	Shares map[string]sdkmath.Int // "<account>/<pool id>" -> pool shares held, from responses
	// bank reading of the state this ledger belongs to (taken after the transition that produced it; immutable,
	// shared between clones). It is the "before" of the next transition and the input of the state invariant.
	snap *Snap
}

func newLedger() *Ledger { return &Ledger{Shares: map[string]sdkmath.Int{}} }

func (l *Ledger) Clone() *Ledger {
	n := &Ledger{Pools: make([]PoolRec, len(l.Pools)), Shares: make(map[string]sdkmath.Int, len(l.Shares)), snap: l.snap}
	copy(n.Pools, l.Pools)
	for i := range n.Pools {
		n.Pools[i].Direct = append(sdk.Coins{}, l.Pools[i].Direct...)
	}
	for k, v := range l.Shares {
		n.Shares[k] = v
	}
	return n
}

func (l *Ledger) pool(id uint64) *PoolRec {
	for i := range l.Pools {
		if l.Pools[i].ID == id {
			return &l.Pools[i]
		}
	}
	return nil
}

func shareKey(acct string, pool uint64) string { return fmt.Sprintf("%s/%d", acct, pool) }

func (l *Ledger) shares(acct string, pool uint64) sdkmath.Int {
	if v, ok := l.Shares[shareKey(acct, pool)]; ok {
		return v
	}
	return sdkmath.ZeroInt()
}

func (l *Ledger) addShares(acct string, pool uint64, d sdkmath.Int) {
	l.Shares[shareKey(acct, pool)] = l.shares(acct, pool).Add(d)
}

// ---------------------------------------------------------------------------------------------
// world
// ---------------------------------------------------------------------------------------------

// Snap is a complete reading of the bank: every balance of every account and every supply.
type Snap struct {
	Bal map[string]sdk.Coins // raw address bytes -> coins (sorted by denom, no zero entries)
	Sup sdk.Coins
}

type World struct {
	Env *core.Env
	App *app.OsmosisApp
	Cfg Config
	R   *core.Result

	Genesis   *Snap
	Known     map[string]string // raw address -> name, accounts that may legitimately hold funds
	Collector sdk.AccAddress    // taker_fee_collector
	Community sdk.AccAddress    // distribution module account (community pool)
	GammMod   sdk.AccAddress
	FeeAccts  []sdk.AccAddress // every txfees module account taker fees are moved through at epoch boundaries
	Creation  sdk.Coins        // pool creation fee
	Stores    []string         // store list of the canonical hash (development aids only)
}

var accounts = []string{"A", "B"}

// the txfees module accounts taker fees pass through (x/txfees/types/keys.go); the first is where chargeTakerFee sends them
var feeAcctNames = []string{txfeestypes.TakerFeeCollectorName, txfeestypes.NonNativeTxFeeCollectorName, txfeestypes.TakerFeeStakersName,
	txfeestypes.TakerFeeCommunityPoolName, txfeestypes.TakerFeeBurnName, txfeestypes.TakerFeeStakingRewardsBuffer}

func other(a string) string {
	if a == "A" {
		return "B"
	}
	return "A"
}

func NewWorld(cfg Config, r *core.Result) *World {
	// bar and baz are funded at 18-decimal scale too (the template "big" holds 10^24 / 2*10^18 base units)
	fund := core.Coins("foo", "10000000000000000", "bar", "10000000000000000000000000000", "baz", "10000000000000000000000000", "uosmo", "200000000000",
		"qaa", "10000000000", "qbb", "10000000000", "qcc", "10000000000", "qdd", "10000000000")
	env := core.NewEnv(core.GenesisOpts{Balances: map[string]sdk.Coins{"A": fund, "B": fund}, Mutate: func(a *app.OsmosisApp, gs app.GenesisState) {
		// The shared environment bonds "stake" (the SDK default), and the txfees default genesis takes its base denom from
		// the same constant. On the chain the fee base denom is uosmo - it is what the epoch hook swaps collected taker fees
		// into, and what protorev keys its routes by - so it is set here as the chain has it.
		var tg txfeestypes.GenesisState
		a.AppCodec().MustUnmarshalJSON(gs[txfeestypes.ModuleName], &tg)
		tg.Basedenom = "uosmo"
		gs[txfeestypes.ModuleName] = a.AppCodec().MustMarshalJSON(&tg)
	}})
	a, ctx := env.App, env.Ctx
	w := &World{Env: env, App: a, Cfg: cfg, R: r}

	if cfg.DefaultTakerFee != "" && cfg.DefaultTakerFee != "0" {
		a.PoolManagerKeeper.SetParam(ctx, pmtypes.KeyDefaultTakerFee, osmomath.MustNewDecFromStr(cfg.DefaultTakerFee))
	}
	if len(cfg.PairFees) > 0 {
		if cfg.ViaAdminMsg {
			a.PoolManagerKeeper.SetParam(ctx, pmtypes.KeyAdminAddresses, []string{core.Acc("A").String()})
			msg := &pmtypes.MsgSetDenomPairTakerFee{Sender: core.Acc("A").String()}
			for _, p := range cfg.PairFees {
				msg.DenomPairTakerFee = append(msg.DenomPairTakerFee, pmtypes.DenomPairTakerFee{TokenInDenom: p.In, TokenOutDenom: p.Out, TakerFee: osmomath.MustNewDecFromStr(p.Fee)})
			}
			if res := core.Deliver(a, ctx, msg); !res.OK() {
				panic(fmt.Sprintf("harness: MsgSetDenomPairTakerFee failed: %v", res.Err))
			}
			// a non-admin must be refused (documented)
			msg2 := *msg
			msg2.Sender = core.Acc("B").String()
			if res := core.Deliver(a, ctx, &msg2); res.OK() {
				panic("harness: non-admin could set a pair taker fee")
			}
		} else {
			for _, p := range cfg.PairFees {
				a.PoolManagerKeeper.SetDenomPairTakerFee(ctx, p.In, p.Out, osmomath.MustNewDecFromStr(p.Fee))
			}
		}
	}
	// the configuration the oracle assumes must be the one the keeper answers with
	for _, in := range []string{"foo", "bar", "baz", "uosmo"} {
		for _, out := range []string{"foo", "bar", "baz", "uosmo"} {
			if in == out {
				continue
			}
			got, err := a.PoolManagerKeeper.GetTradingPairTakerFee(ctx, in, out)
			if err != nil || !got.Equal(cfg.takerFee(in, out)) {
				panic(fmt.Sprintf("harness: taker fee %s->%s configured %s, keeper says %s (%v)", in, out, cfg.takerFee(in, out), got, err))
			}
		}
	}

	w.Collector = authtypes.NewModuleAddress(txfeestypes.TakerFeeCollectorName)
	w.Community = authtypes.NewModuleAddress(distrtypes.ModuleName)
	w.GammMod = authtypes.NewModuleAddress(gammtypes.ModuleName)
	for _, n := range feeAcctNames {
		w.FeeAccts = append(w.FeeAccts, authtypes.NewModuleAddress(n))
	}
	w.Creation = a.PoolManagerKeeper.GetParams(ctx).PoolCreationFee

	w.Genesis = w.snap(ctx)
	w.Known = map[string]string{}
	for k := range w.Genesis.Bal {
		w.Known[k] = "genesis-holder"
	}
	for bech := range app.ModuleAccountAddrs() {
		ad, err := sdk.AccAddressFromBech32(bech)
		if err != nil {
			panic(err)
		}
		w.Known[string(ad)] = "module-account"
	}
	w.Known[string(txfeestypes.DefaultNullAddress)] = "null-address"
	for _, n := range accounts {
		w.Known[string(core.Acc(n))] = n
	}
	return w
}

func (w *World) snap(ctx sdk.Context) *Snap {
	s := &Snap{Bal: map[string]sdk.Coins{}}
	w.App.BankKeeper.IterateAllBalances(ctx, func(addr sdk.AccAddress, c sdk.Coin) bool {
		if !c.Amount.IsZero() {
			k := string(addr)
			s.Bal[k] = append(s.Bal[k], c)
		}
		return false
	})
	w.App.BankKeeper.IterateTotalSupply(ctx, func(c sdk.Coin) bool {
		if !c.Amount.IsZero() {
			s.Sup = append(s.Sup, c)
		}
		return false
	})
	return s
}

// delta is a signed per-denom difference.
type delta map[string]sdkmath.Int

func (d delta) add(denom string, v sdkmath.Int) {
	if o, ok := d[denom]; ok {
		v = o.Add(v)
	}
	if v.IsZero() {
		delete(d, denom)
	} else {
		d[denom] = v
	}
}

func (d delta) addCoins(c sdk.Coins, sign int64) {
	for _, x := range c {
		d.add(x.Denom, x.Amount.MulRaw(sign))
	}
}

func (d delta) get(denom string) sdkmath.Int {
	if v, ok := d[denom]; ok {
		return v
	}
	return sdkmath.ZeroInt()
}

func (d delta) String() string {
	ks := make([]string, 0, len(d))
	for k := range d {
		ks = append(ks, k)
	}
	sort.Strings(ks)
	var b []string
	for _, k := range ks {
		b = append(b, d[k].String()+k)
	}
	return "[" + strings.Join(b, " ") + "]"
}

func (d delta) equal(o delta) bool {
	if len(d) != len(o) {
		return false
	}
	for k, v := range d {
		if ov, ok := o[k]; !ok || !ov.Equal(v) {
			return false
		}
	}
	return true
}

func coinsDelta(before, after sdk.Coins) delta {
	d := delta{}
	d.addCoins(after, 1)
	d.addCoins(before, -1)
	return d
}

func isShare(denom string) bool { return strings.HasPrefix(denom, "gamm/pool/") }

func mustUnmarshal(res *sdk.Result, i int, m proto.Message) {
	if len(res.MsgResponses) > i {
		if err := proto.Unmarshal(res.MsgResponses[i].Value, m); err != nil {
			panic(err)
		}
		return
	}
	if err := proto.Unmarshal(res.Data, m); err != nil {
		panic(err)
	}
}

// errClass maps an error to a short stable class for the rejected-transition table: numbers are replaced by '#'
// (amounts, ids), everything from the first bracket on is dropped, at most 72 characters are kept.
func errClass(err error) string {
	if err == nil {
		return "ok"
	}
	out := make([]rune, 0, 72)
	inNum := false
	for _, c := range err.Error() {
		if c == '(' || c == '{' || c == '[' || c == '\n' {
			break
		}
		if c >= '0' && c <= '9' {
			if !inNum {
				out = append(out, '#')
			}
			inNum = true
			continue
		}
		inNum = false
		out = append(out, c)
		if len(out) >= 72 {
			break
		}
	}
	return "rejected:" + strings.TrimSpace(string(out))
}

func mustInt(s string) sdkmath.Int {
	v, ok := sdkmath.NewIntFromString(s)
	if !ok {
		panic("bad integer " + s)
	}
	return v
}

// buildCreate turns a template into the creation message.
func buildCreate(t Template, creator sdk.AccAddress) (sdk.Msg, sdk.Coins) {
	init := sdk.NewCoins()
	for _, c := range t.Coins {
		init = init.Add(sdk.NewCoin(c[0], mustInt(c[1])))
	}
	fee := osmomath.MustNewDecFromStr(t.Fee)
	if t.Kind == "bal" {
		var assets []balancer.PoolAsset
		for i, c := range t.Coins {
			assets = append(assets, balancer.PoolAsset{Token: sdk.NewCoin(c[0], mustInt(c[1])), Weight: sdkmath.NewInt(t.Weights[i])})
		}
		m := balancer.NewMsgCreateBalancerPool(creator, balancer.PoolParams{SwapFee: fee, ExitFee: osmomath.ZeroDec()}, assets, "")
		return &m, init
	}
	// stableswap: liquidity must be sorted by denom, scaling factors follow that order (templates are written sorted)
	var liq sdk.Coins
	for _, c := range t.Coins {
		liq = append(liq, sdk.NewCoin(c[0], mustInt(c[1])))
	}
	m := stableswap.NewMsgCreateStableswapPool(creator, stableswap.PoolParams{SwapFee: fee, ExitFee: osmomath.ZeroDec()}, liq, t.Scaling, "")
	return &m, init
}

func inRoutes(r []Hop) []pmtypes.SwapAmountInRoute {
	var out []pmtypes.SwapAmountInRoute
	for _, h := range r {
		out = append(out, pmtypes.SwapAmountInRoute{PoolId: h.P, TokenOutDenom: h.O})
	}
	return out
}

func outRoutes(r []Hop) []pmtypes.SwapAmountOutRoute {
	var out []pmtypes.SwapAmountOutRoute
	for _, h := range r {
		out = append(out, pmtypes.SwapAmountOutRoute{PoolId: h.P, TokenInDenom: h.I})
	}
	return out
}

// expectation is what a successful message must have done, derived from request and response.
type expectation struct {
	sender     string
	senderD    delta            // expected balance delta of the sender, all denoms incl. shares
	looseInter map[string]bool  // denoms in which a sender delta is tolerated (counted), see swapout
	touched    map[uint64]bool  // pools the message may move tokens of
	community  delta            // expected delta of the community pool
	feeCheck   func(coll delta) // taker-fee oracle on the collector's delta
}

// Apply executes one op against the real application and updates the ledger from the response.
func (w *World) Apply(ctx sdk.Context, l *Ledger, op Op, fail func(a, s, d string)) (sdk.Context, string) {
	a := w.App
	vac := w.R.Vacuity
	if l.snap == nil {
		l.snap = w.snap(ctx)
	}
	if op.K == "tick" {
		before := l.snap
		next, err := core.NextBlock(a, ctx, dts[op.T])
		if err != nil {
			fail("c02.block-boundary-succeeds", "", err.Error())
			l.snap = nil
			return ctx, "rejected:block"
		}
		after := w.snap(next)
		l.snap = after
		// Block and epoch boundaries may move taker fees onward (txfees epoch hooks swap and distribute them). What stays
		// strict: no user balance moves, no share supply moves; global conservation is asserted by the state invariant.
		for _, n := range accounts {
			k := string(core.Acc(n))
			if d := coinsDelta(before.Bal[k], after.Bal[k]); len(d) != 0 {
				fail("c02.block-boundary-leaves-users-untouched", "", fmt.Sprintf("balance of %s moved by %s across a block boundary (dt=%s)", n, d, dts[op.T]))
			}
		}
		ck := string(w.Collector)
		if !before.Bal[ck].IsZero() && after.Bal[ck].IsZero() {
			vac["collector_emptied_at_epoch_boundary"]++
		}
		for _, p := range l.Pools {
			if d := coinsDelta(before.Bal[string(p.Addr)], after.Bal[string(p.Addr)]); len(d) != 0 {
				vac["pool_traded_against_by_epoch_hook"]++
				break
			}
		}
		return next, "ok"
	}

	var msgs []sdk.Msg
	ex := expectation{sender: op.A, senderD: delta{}, touched: map[uint64]bool{}, community: delta{}}
	snd := core.Acc(op.A)
	noFee := func(coll delta) {
		if len(coll) != 0 {
			fail("c02.taker-fee-only-on-swaps", "", fmt.Sprintf("%s moved the taker-fee collector by %s", op, coll))
		}
	}
	ex.feeCheck = noFee
	var pr *PoolRec
	if op.P != 0 {
		pr = l.pool(op.P)
		if pr == nil {
			return ctx, "rejected:no-such-pool-in-ledger"
		}
		ex.touched[op.P] = true
	}
	var createInit sdk.Coins

	switch op.K {
	case "create":
		m, init := buildCreate(templates[op.C], snd)
		createInit = init
		msgs = []sdk.Msg{m}
	case "join":
		var maxs sdk.Coins
		if op.Y != "" && op.Y != "0" {
			for _, c := range pr.Init {
				maxs = maxs.Add(sdk.NewCoin(c.Denom, pr.pct(c.Denom, mustInt(op.Y).Int64())))
			}
		}
		msgs = []sdk.Msg{&gammtypes.MsgJoinPool{Sender: snd.String(), PoolId: op.P, ShareOutAmount: mustInt(op.X), TokenInMaxs: maxs}}
	case "jswapin":
		msgs = []sdk.Msg{&gammtypes.MsgJoinSwapExternAmountIn{Sender: snd.String(), PoolId: op.P, TokenIn: sdk.NewCoin(op.D, mustInt(op.X)), ShareOutMinAmount: sdkmath.OneInt()}}
	case "jshare":
		msgs = []sdk.Msg{&gammtypes.MsgJoinSwapShareAmountOut{Sender: snd.String(), PoolId: op.P, TokenInDenom: op.D, ShareOutAmount: mustInt(op.X), TokenInMaxAmount: mustInt(op.Y)}}
	case "exit":
		msgs = []sdk.Msg{&gammtypes.MsgExitPool{Sender: snd.String(), PoolId: op.P, ShareInAmount: mustInt(op.X)}}
	case "exitall":
		h := l.shares(op.A, op.P)
		if !h.IsPositive() {
			return ctx, "rejected:ledger-holds-no-shares"
		}
		msgs = []sdk.Msg{&gammtypes.MsgExitPool{Sender: snd.String(), PoolId: op.P, ShareInAmount: h}}
	case "eshare":
		msgs = []sdk.Msg{&gammtypes.MsgExitSwapShareAmountIn{Sender: snd.String(), PoolId: op.P, TokenOutDenom: op.D, ShareInAmount: mustInt(op.X), TokenOutMinAmount: sdkmath.OneInt()}}
	case "eextern":
		msgs = []sdk.Msg{&gammtypes.MsgExitSwapExternAmountOut{Sender: snd.String(), PoolId: op.P, TokenOut: sdk.NewCoin(op.D, mustInt(op.X)), ShareInMaxAmount: mustInt(op.Y)}}
	case "swapin":
		msgs = []sdk.Msg{&pmtypes.MsgSwapExactAmountIn{Sender: snd.String(), Routes: inRoutes(op.R), TokenIn: sdk.NewCoin(op.R[0].I, mustInt(op.X)), TokenOutMinAmount: mustInt(op.Y)}}
	case "swapout":
		msgs = []sdk.Msg{&pmtypes.MsgSwapExactAmountOut{Sender: snd.String(), Routes: outRoutes(op.R), TokenOut: sdk.NewCoin(op.R[len(op.R)-1].O, mustInt(op.X)), TokenInMaxAmount: mustInt(op.Y)}}
	case "split":
		msgs = []sdk.Msg{&pmtypes.MsgSplitRouteSwapExactAmountIn{Sender: snd.String(), TokenInDenom: op.R[0].I, TokenOutMinAmount: sdkmath.OneInt(),
			Routes: []pmtypes.SwapAmountInSplitRoute{{Pools: inRoutes(op.R), TokenInAmount: mustInt(op.X)}, {Pools: inRoutes(op.R2), TokenInAmount: mustInt(op.X2)}}}}
	case "send":
		msgs = []sdk.Msg{&banktypes.MsgSend{FromAddress: snd.String(), ToAddress: pr.Addr.String(), Amount: sdk.NewCoins(sdk.NewCoin(op.D, mustInt(op.X)))}}
	case "tx":
		msgs = []sdk.Msg{
			&gammtypes.MsgJoinPool{Sender: snd.String(), PoolId: op.P, ShareOutAmount: mustInt(op.X)},
			&gammtypes.MsgExitPool{Sender: snd.String(), PoolId: op.P, ShareInAmount: mustInt(op.Y)},
		}
	default:
		panic("unknown op " + op.K)
	}
	for _, h := range append(append([]Hop{}, op.R...), op.R2...) {
		ex.touched[h.P] = true
	}

	before := l.snap
	var res []core.MsgResult
	if len(msgs) == 1 {
		res = []core.MsgResult{core.Deliver(a, ctx, msgs[0])}
	} else {
		res = core.DeliverTx(a, ctx, msgs...)
	}
	last := res[len(res)-1]
	if !last.OK() {
		// all or nothing: a failed message (or transaction) leaves every balance and supply where it was
		after := w.snap(ctx)
		l.snap = after
		if msg := snapDiff(before, after); msg != "" {
			fail("c02.failed-message-changes-nothing", "", fmt.Sprintf("%s failed (%v) but: %s", op, last.Err, msg))
		}
		vac["failed_message_observed"]++
		if len(res) > 1 || (op.K == "swapin" && len(op.R) > 1 && op.Y != "1") {
			// an earlier message of the transaction, or the first hop of a route whose last hop misses its minimum, had
			// already executed when the failure occurred
			vac["failed_after_partial_execution"]++
		}
		if last.Panicked {
			vac["failed_by_recovered_panic"]++
		}
		return ctx, errClass(last.Err)
	}
	r := last.Res
	after := w.snap(ctx)
	l.snap = after

	// ---- ledger update and expected sender delta from request + response
	share := func(id uint64) string { return gammtypes.GetPoolShareDenom(id) }
	switch op.K {
	case "create":
		var id uint64
		if templates[op.C].Kind == "bal" {
			var resp balancer.MsgCreateBalancerPoolResponse
			mustUnmarshal(r, 0, &resp)
			id = resp.PoolID
		} else {
			var resp stableswap.MsgCreateStableswapPoolResponse
			mustUnmarshal(r, 0, &resp)
			id = resp.PoolID
		}
		if l.pool(id) != nil || id == 0 {
			fail("c02.create.fresh-pool-id", "", fmt.Sprintf("create returned pool id %d", id))
			return ctx, "ok"
		}
		rec := PoolRec{ID: id, Kind: templates[op.C].Kind, Creator: op.A, Init: createInit, Addr: pmtypes.NewPoolAddress(id)}
		for _, c := range createInit {
			rec.Denoms = append(rec.Denoms, c.Denom)
		}
		l.Pools = append(l.Pools, rec)
		l.addShares(op.A, id, gammtypes.InitPoolSharesSupply)
		ex.touched[id] = true
		ex.senderD.addCoins(createInit, -1)
		ex.senderD.addCoins(w.Creation, -1)
		ex.senderD.add(share(id), gammtypes.InitPoolSharesSupply)
		ex.community.addCoins(w.Creation, 1) // the creation fee is a transfer to the community pool, not a burn
		vac["pool_created_"+templates[op.C].Kind]++
	case "join":
		var resp gammtypes.MsgJoinPoolResponse
		mustUnmarshal(r, 0, &resp)
		ex.senderD.addCoins(resp.TokenIn, -1)
		ex.senderD.add(share(op.P), resp.ShareOutAmount)
		l.addShares(op.A, op.P, resp.ShareOutAmount)
		if op.Y != "" && op.Y != "0" {
			for _, c := range resp.TokenIn {
				mx := pr.pct(c.Denom, mustInt(op.Y).Int64())
				if c.Amount.GT(mx) {
					fail("c02.join.within-token-in-maxs", "", fmt.Sprintf("%s charged %s, maximum was %s", op, c, mx))
				}
				if c.Amount.LT(mx) {
					vac["join_took_less_than_max_in"]++
				}
			}
		}
		vac["all_asset_join_executed"]++
	case "jswapin":
		var resp gammtypes.MsgJoinSwapExternAmountInResponse
		mustUnmarshal(r, 0, &resp)
		ex.senderD.add(op.D, mustInt(op.X).Neg())
		ex.senderD.add(share(op.P), resp.ShareOutAmount)
		l.addShares(op.A, op.P, resp.ShareOutAmount)
		vac["single_asset_join_executed"]++
	case "jshare":
		var resp gammtypes.MsgJoinSwapShareAmountOutResponse
		mustUnmarshal(r, 0, &resp)
		ex.senderD.add(op.D, resp.TokenInAmount.Neg())
		ex.senderD.add(share(op.P), mustInt(op.X))
		l.addShares(op.A, op.P, mustInt(op.X))
		if resp.TokenInAmount.GT(mustInt(op.Y)) {
			fail("c02.jshare.within-max", "", fmt.Sprintf("%s charged %s", op, resp.TokenInAmount))
		}
		vac["single_asset_join_executed"]++
		vac["join_for_exact_shares_single_asset"]++
	case "exit", "exitall":
		var resp gammtypes.MsgExitPoolResponse
		mustUnmarshal(r, 0, &resp)
		sh := msgs[0].(*gammtypes.MsgExitPool).ShareInAmount
		ex.senderD.addCoins(resp.TokenOut, 1)
		ex.senderD.add(share(op.P), sh.Neg())
		l.addShares(op.A, op.P, sh.Neg())
		vac["exit_executed"]++
		if op.K == "exitall" {
			vac["joiner_exited_everything"]++
		}
	case "eshare":
		var resp gammtypes.MsgExitSwapShareAmountInResponse
		mustUnmarshal(r, 0, &resp)
		ex.senderD.add(op.D, resp.TokenOutAmount)
		ex.senderD.add(share(op.P), mustInt(op.X).Neg())
		l.addShares(op.A, op.P, mustInt(op.X).Neg())
		vac["exit_executed"]++
		vac["single_asset_exit_executed"]++
	case "eextern":
		var resp gammtypes.MsgExitSwapExternAmountOutResponse
		mustUnmarshal(r, 0, &resp)
		ex.senderD.add(op.D, mustInt(op.X))
		ex.senderD.add(share(op.P), resp.ShareInAmount.Neg())
		l.addShares(op.A, op.P, resp.ShareInAmount.Neg())
		if resp.ShareInAmount.GT(mustInt(op.Y)) {
			fail("c02.eextern.within-max", "", fmt.Sprintf("%s burned %s shares", op, resp.ShareInAmount))
		}
		vac["exit_executed"]++
		vac["single_asset_exit_executed"]++
	case "swapin":
		var resp pmtypes.MsgSwapExactAmountInResponse
		mustUnmarshal(r, 0, &resp)
		in, out := op.R[0].I, op.R[len(op.R)-1].O
		ex.senderD.add(in, mustInt(op.X).Neg())
		ex.senderD.add(out, resp.TokenOutAmount)
		if resp.TokenOutAmount.LT(mustInt(op.Y)) {
			fail("c02.swapin.min-out-respected", "", fmt.Sprintf("%s returned %s", op, resp.TokenOutAmount))
		}
		ex.feeCheck = w.feeCheckIn(op, op.R, mustInt(op.X), fail)
		w.noteRoute(l, op.R, vac)
	case "swapout":
		var resp pmtypes.MsgSwapExactAmountOutResponse
		mustUnmarshal(r, 0, &resp)
		in, out := op.R[0].I, op.R[len(op.R)-1].O
		ex.senderD.add(in, resp.TokenInAmount.Neg())
		ex.senderD.add(out, mustInt(op.X))
		if resp.TokenInAmount.GT(mustInt(op.Y)) {
			fail("c02.swapout.max-in-respected", "", fmt.Sprintf("%s charged %s", op, resp.TokenInAmount))
		}
		// Exact-out routes are planned on the pre-state: every hop buys exactly what the next hop was estimated to
		// need. When a pool occurs twice in the route the later hop runs on a reserve the plan did not see, so the
		// bought intermediate amount can differ from what is spent; the difference stays with (or is paid by) the
		// trader. That is conserved, so it is tolerated in the intermediate denoms and counted.
		if repeatsPool(op.R) {
			ex.looseInter = map[string]bool{}
			for _, h := range op.R[1:] {
				ex.looseInter[h.I] = true
			}
		}
		ex.feeCheck = w.feeCheckOut(op, resp.TokenInAmount, fail)
		w.noteRoute(l, op.R, vac)
	case "split":
		var resp pmtypes.MsgSplitRouteSwapExactAmountInResponse
		mustUnmarshal(r, 0, &resp)
		in, out := op.R[0].I, op.R[len(op.R)-1].O
		ex.senderD.add(in, mustInt(op.X).Add(mustInt(op.X2)).Neg())
		ex.senderD.add(out, resp.TokenOutAmount)
		ex.feeCheck = w.feeCheckSplit(op, fail)
		w.noteRoute(l, op.R, vac)
		w.noteRoute(l, op.R2, vac)
		vac["split_route_executed"]++
	case "send":
		c := sdk.NewCoin(op.D, mustInt(op.X))
		ex.senderD.add(op.D, c.Amount.Neg())
		pr.Direct = pr.Direct.Add(c)
		vac["direct_send_to_pool_address"]++
		if !pr.has(op.D) {
			vac["direct_send_of_foreign_denom"]++
		}
	case "tx":
		fail("c02.tx.second-message-must-fail", "", fmt.Sprintf("%s: the exit of more shares than exist succeeded", op))
		return ctx, "ok"
	}

	w.checkTransition(l, op, ex, before, after, fail)
	return ctx, "ok"
}

func repeatsPool(r []Hop) bool {
	seen := map[uint64]bool{}
	for _, h := range r {
		if seen[h.P] {
			return true
		}
		seen[h.P] = true
	}
	return false
}

func (w *World) noteRoute(l *Ledger, r []Hop, vac map[string]int64) {
	switch len(r) {
	case 1:
		vac["single_hop_route_executed"]++
	case 2:
		vac["two_hop_route_executed"]++
	case 3:
		vac["three_hop_route_executed"]++
	}
	if repeatsPool(r) {
		vac["route_through_same_pool_twice_executed"]++
	}
	for _, h := range r {
		if p := l.pool(h.P); p != nil {
			if p.Kind == "stable" {
				vac["stableswap_swap_executed"]++
			} else {
				vac["balancer_swap_executed"]++
			}
		}
	}
}

// exactInFee is the statement's formula: tokenIn - truncated(tokenIn * (1 - fee)).
func exactInFee(in sdkmath.Int, fee osmomath.Dec) sdkmath.Int {
	return in.Sub(osmomath.OneDec().Sub(fee).MulInt(in).TruncateInt())
}

// feeCheckIn: for an exact-in route the first hop's taker fee is known exactly from the request. When the input
// denom is paid into no later hop, the collector's delta in that denom must equal it; a single-hop route fixes the
// collector's whole delta.
func (w *World) feeCheckIn(op Op, r []Hop, amt sdkmath.Int, fail func(a, s, d string)) func(delta) {
	return func(coll delta) {
		in := r[0].I
		want := exactInFee(amt, w.Cfg.takerFee(r[0].I, r[0].O))
		later := false
		for _, h := range r[1:] {
			if h.I == in {
				later = true
			}
		}
		got := coll.get(in)
		if !later && !got.Equal(want) || later && got.LT(want) {
			fail("c02.taker-fee-formula-exact-in", "", fmt.Sprintf("%s: collector received %s %s, formula gives %s for the first hop (fee %s)", op, got, in, want, w.Cfg.takerFee(r[0].I, r[0].O)))
		}
		w.feeDenoms(op, append([]Hop{}, r...), coll, fail)
	}
}

// feeDenoms: the collector may only receive denoms that some hop takes as input and whose pair fee is non-zero.
func (w *World) feeDenoms(op Op, r []Hop, coll delta, fail func(a, s, d string)) {
	allowed := map[string]bool{}
	for _, h := range r {
		if w.Cfg.takerFee(h.I, h.O).IsPositive() {
			allowed[h.I] = true
		}
	}
	for d, v := range coll {
		if v.IsNegative() || !allowed[d] {
			fail("c02.taker-fee-denoms", "", fmt.Sprintf("%s: collector delta %s; %s is not an input denom of a fee-bearing hop (or negative)", op, coll, d))
		}
	}
	if len(coll) > 0 {
		w.R.Vacuity["taker_fee_collected"]++
	}
}

// feeCheckOut: exact-out, single hop: paid = ceil(poolIn / (1 - fee)) where poolIn = paid - fee collected.
func (w *World) feeCheckOut(op Op, paid sdkmath.Int, fail func(a, s, d string)) func(delta) {
	return func(coll delta) {
		r := op.R
		if len(r) == 1 {
			f := w.Cfg.takerFee(r[0].I, r[0].O)
			c := coll.get(r[0].I)
			poolIn := paid.Sub(c)
			want := poolIn.ToLegacyDec().Quo(osmomath.OneDec().Sub(f)).Ceil().TruncateInt()
			if !want.Equal(paid) || c.IsNegative() {
				fail("c02.taker-fee-formula-exact-out", "", fmt.Sprintf("%s: trader paid %s, collector got %s, pool got %s; ceil(pool/(1-%s)) = %s", op, paid, c, poolIn, f, want))
			}
		}
		w.feeDenoms(op, append([]Hop{}, r...), coll, fail)
	}
}

func (w *World) feeCheckSplit(op Op, fail func(a, s, d string)) func(delta) {
	return func(coll delta) {
		in := op.R[0].I
		want := exactInFee(mustInt(op.X), w.Cfg.takerFee(op.R[0].I, op.R[0].O)).Add(exactInFee(mustInt(op.X2), w.Cfg.takerFee(op.R2[0].I, op.R2[0].O)))
		if coll.get(in).LT(want) {
			fail("c02.taker-fee-formula-exact-in", "", fmt.Sprintf("%s: collector received %s %s, first hops alone owe %s", op, coll.get(in), in, want))
		}
		w.feeDenoms(op, append(append([]Hop{}, op.R...), op.R2...), coll, fail)
	}
}

// snapDiff describes the first difference between two bank readings ("" when equal).
func snapDiff(a, b *Snap) string {
	if !a.Sup.Equal(b.Sup) {
		return fmt.Sprintf("supply %s -> %s", a.Sup, b.Sup)
	}
	keys := map[string]bool{}
	for k := range a.Bal {
		keys[k] = true
	}
	for k := range b.Bal {
		keys[k] = true
	}
	ks := make([]string, 0, len(keys))
	for k := range keys {
		ks = append(ks, k)
	}
	sort.Strings(ks)
	for _, k := range ks {
		if !a.Bal[k].Equal(b.Bal[k]) {
			return fmt.Sprintf("balance of %s %s -> %s", sdk.AccAddress(k), a.Bal[k], b.Bal[k])
		}
	}
	return ""
}

// checkTransition: per-message accounting. Every account whose balance moved must be the sender, a pool the
// message addresses, the taker-fee collector or the community pool; their deltas sum to zero per non-share denom
// ("every unit a trader pays is accounted for exactly once"); the sender's delta is what request and response say.
func (w *World) checkTransition(l *Ledger, op Op, ex expectation, before, after *Snap, fail func(a, s, d string)) {
	keys := map[string]bool{}
	for k := range before.Bal {
		keys[k] = true
	}
	for k := range after.Bal {
		keys[k] = true
	}
	ks := make([]string, 0, len(keys))
	for k := range keys {
		ks = append(ks, k)
	}
	sort.Strings(ks)
	poolOf := map[string]uint64{}
	for _, p := range l.Pools {
		poolOf[string(p.Addr)] = p.ID
	}
	sum := delta{}
	var senderD, collD, commD delta = delta{}, delta{}, delta{}
	for _, k := range ks {
		d := coinsDelta(before.Bal[k], after.Bal[k])
		if len(d) == 0 {
			continue
		}
		switch {
		case k == string(core.Acc(ex.sender)):
			senderD = d
		case k == string(w.Collector):
			collD = d
		case k == string(w.Community):
			commD = d
		case poolOf[k] != 0:
			if !ex.touched[poolOf[k]] {
				fail("c02.only-addressed-pools-move", "", fmt.Sprintf("%s moved the balance of pool %d by %s", op, poolOf[k], d))
			}
			for dn := range d {
				if isShare(dn) {
					fail("c02.pool-account-never-holds-shares", "", fmt.Sprintf("%s: pool %d account share delta %s", op, poolOf[k], d))
				}
			}
		default:
			name := w.Known[k]
			fail("c02.no-third-party-balance-change", "", fmt.Sprintf("%s moved the balance of %s (%s) by %s", op, sdk.AccAddress(k), name, d))
		}
		for dn, v := range d {
			sum.add(dn, v)
		}
	}
	// supplies: non-share denoms never move; share supply moves exactly with the sender's share balance
	supD := coinsDelta(before.Sup, after.Sup)
	for dn, v := range supD {
		if !isShare(dn) {
			fail("c02.message-mints-or-burns-no-tokens", "", fmt.Sprintf("%s changed the supply of %s by %s", op, dn, v))
		}
	}
	for dn, v := range sum {
		if isShare(dn) {
			if !supD.get(dn).Equal(v) {
				fail("c02.share-balance-moves-with-share-supply", "", fmt.Sprintf("%s: balances of %s moved by %s, supply by %s", op, dn, v, supD.get(dn)))
			}
		} else {
			fail("c02.every-unit-accounted-once", "", fmt.Sprintf("%s: sender %s + pools + collector %s + community pool %s do not cancel: residue %s %s", op, senderD, collD, commD, v, dn))
		}
	}
	for dn, v := range supD {
		if isShare(dn) && !sum.get(dn).Equal(v) {
			fail("c02.share-balance-moves-with-share-supply", "", fmt.Sprintf("%s: supply of %s moved by %s, balances by %s", op, dn, v, sum.get(dn)))
		}
	}
	// sender delta = request/response
	want := ex.senderD
	got := senderD
	if ex.looseInter != nil {
		// compare only the denoms that are not intermediate denoms of a route that revisits a pool
		w2, g2 := delta{}, delta{}
		for dn, v := range want {
			if !ex.looseInter[dn] {
				w2[dn] = v
			}
		}
		for dn, v := range got {
			if !ex.looseInter[dn] {
				g2[dn] = v
			} else if !want.get(dn).Equal(v) {
				w.R.Vacuity["exact_out_intermediate_remainder_with_trader"]++
			}
		}
		want, got = w2, g2
	}
	if !got.equal(want) {
		fail("c02.sender-delta-equals-response", "", fmt.Sprintf("%s: request/response imply sender delta %s, bank shows %s", op, ex.senderD, senderD))
	}
	if !commD.equal(ex.community) {
		fail("c02.community-pool-delta", "", fmt.Sprintf("%s: community pool moved by %s, expected %s", op, commD, ex.community))
	}
	ex.feeCheck(collD)
}

// ---------------------------------------------------------------------------------------------
// alphabet
// ---------------------------------------------------------------------------------------------

type Alphabet struct {
	Creates  []Op `json:"creates"`   // creation symbols offered while fewer than MaxPools pools exist
	MaxPools int  `json:"max_pools"` // pools beyond which no creation symbol is offered
	LPPools  int  `json:"lp_pools"`  // LP symbols are generated for at most this many pools (first ..., last)
	Tiny     bool `json:"tiny"`      // amount-1 swap
	Out3     bool `json:"out3"`      // 3-hop exact-out
	Ticks    []int
	Wide     bool `json:"wide"` // thorough extras: reversed directions, joins by the creator, second direct send
}

type hopIdx struct {
	p    int
	i, o string
}

// findPath enumerates all hop sequences of length n over the ledger's pools (consecutive denoms match; a pool may
// repeat) from denom `from` to denom `to` ("" = any) and returns the one using the most distinct pools, then the one
// whose end denom differs from its start denom, then the first in enumeration order (pool order, denom order).
func findPath(pools []PoolRec, n int, from, to string, exclude func([]hopIdx) bool) []Hop {
	var best []hopIdx
	bestScore := -1
	var cur []hopIdx
	var rec func()
	rec = func() {
		if len(cur) == n {
			if to != "" && cur[n-1].o != to {
				return
			}
			if exclude != nil && exclude(cur) {
				return
			}
			seen := map[int]bool{}
			for _, h := range cur {
				seen[h.p] = true
			}
			score := 2 * len(seen)
			if cur[0].i != cur[n-1].o {
				score++
			}
			if score > bestScore {
				bestScore = score
				best = append([]hopIdx{}, cur...)
			}
			return
		}
		for pi, p := range pools {
			for _, in := range p.Denoms {
				if len(cur) == 0 && from != "" && in != from {
					continue
				}
				if len(cur) > 0 && cur[len(cur)-1].o != in {
					continue
				}
				for _, out := range p.Denoms {
					if out == in {
						continue
					}
					cur = append(cur, hopIdx{pi, in, out})
					rec()
					cur = cur[:len(cur)-1]
				}
			}
		}
	}
	rec()
	var r []Hop
	for _, h := range best {
		r = append(r, Hop{P: pools[h.p].ID, I: h.i, O: h.o})
	}
	return r
}

const oneShare = "1000000000000000000"
const bigLimit = "1000000000000000"

func (w *World) Enabled(al *Alphabet) func(ctx sdk.Context, l *Ledger, depth int) []Op {
	return func(ctx sdk.Context, l *Ledger, depth int) []Op {
		if len(w.R.Violations) >= 50 {
			// the violation list of this shard is full (a pervasive defect): nothing more can be recorded, stop expanding
			w.R.Exhaustive = false
			return nil
		}
		var ops []Op
		pools := l.Pools
		np := len(pools)
		if np > 0 {
			first, last := pools[0], pools[np-1]
			f0, f1 := first.Denoms[0], first.Denoms[1]
			l0, l1 := last.Denoms[0], last.Denoms[len(last.Denoms)-1]
			// --- swaps through the router
			ops = append(ops,
				Op{K: "swapin", A: "B", X: "1000", Y: "1", R: []Hop{{first.ID, f0, f1}}},
				Op{K: "swapin", A: "A", X: last.pct(l1, 10).String(), Y: "1", R: []Hop{{last.ID, l1, l0}}},
				Op{K: "swapout", A: "A", X: "1000", Y: bigLimit, R: []Hop{{first.ID, f1, f0}}},
				Op{K: "swapout", A: "B", X: last.pct(l1, 10).String(), Y: bigLimit, R: []Hop{{last.ID, l0, l1}}},
			)
			if al.Tiny {
				ops = append(ops, Op{K: "swapin", A: "B", X: "1", Y: "1", R: []Hop{{first.ID, f0, f1}}})
			}
			// whale swaps into every thin pool, both directions (only states holding a thin pool grow)
			for _, p := range pools {
				if p.thin() {
					d0, d1 := p.Denoms[0], p.Denoms[1]
					ops = append(ops,
						Op{K: "swapin", A: "A", X: whale, Y: "1", R: []Hop{{p.ID, d0, d1}}},
						Op{K: "swapin", A: "B", X: whale, Y: "1", R: []Hop{{p.ID, d1, d0}}})
				}
			}
			p2 := findPath(pools, 2, "", "", nil)
			p3 := findPath(pools, 3, "", "", nil)
			ops = append(ops,
				Op{K: "swapin", A: "B", X: "1000", Y: "1", R: p2},
				Op{K: "swapout", A: "A", X: "1000", Y: bigLimit, R: p2},
				// two hops with an unreachable minimum on the last one: the first hop has executed when the message fails
				Op{K: "swapin", A: "A", X: "1000", Y: bigLimit, R: p2},
				Op{K: "swapin", A: "B", X: l.pool(p3[0].P).pct(p3[0].I, 10).String(), Y: "1", R: p3},
			)
			if al.Out3 {
				ops = append(ops, Op{K: "swapout", A: "B", X: "1000", Y: bigLimit, R: p3})
			}
			// split: the direct hop and a different route between the same denoms - two hops if one exists, else the
			// same pair in another pool, else three hops (there and back and there again through the same pool)
			s1 := []Hop{{first.ID, f0, f1}}
			s2 := findPath(pools, 2, f0, f1, nil)
			if s2 == nil {
				s2 = findPath(pools, 1, f0, f1, func(c []hopIdx) bool { return pools[c[0].p].ID == first.ID })
			}
			if s2 == nil {
				s2 = findPath(pools, 3, f0, f1, nil)
			}
			if s2 != nil {
				ops = append(ops, Op{K: "split", A: "B", X: "1000", R: s1, X2: first.pct(f0, 10).String(), R2: s2})
			}
			if al.Wide {
				ops = append(ops,
					Op{K: "swapin", A: "A", X: first.pct(f1, 10).String(), Y: "1", R: []Hop{{first.ID, f1, f0}}},
					Op{K: "swapout", A: "B", X: "1", Y: bigLimit, R: []Hop{{last.ID, l1, l0}}},
				)
			}
			// --- liquidity provision: pools first, (second,) last
			var lp []PoolRec
			for i, p := range pools {
				if i < al.LPPools-1 || i == np-1 {
					lp = append(lp, p)
				}
			}
			for i, p := range lp {
				j := other(p.Creator)
				d0, d1 := p.Denoms[0], p.Denoms[len(p.Denoms)-1]
				jd := d0
				if i%2 == 1 {
					jd = d1
				}
				ops = append(ops,
					Op{K: "join", A: j, P: p.ID, X: oneShare, Y: "50"},
					Op{K: "jswapin", A: j, P: p.ID, D: jd, X: p.pct(jd, 1).String()},
					Op{K: "exit", A: p.Creator, P: p.ID, X: "10000000000000000000"},
					Op{K: "eshare", A: p.Creator, P: p.ID, D: d1, X: oneShare},
				)
				if al.Wide {
					ops = append(ops, Op{K: "join", A: p.Creator, P: p.ID, X: "1", Y: "0"}, Op{K: "jswapin", A: j, P: p.ID, D: d1, X: "1000"})
				}
				if p.big() {
					ops = append(ops, Op{K: "join", A: j, P: p.ID, X: oddShares, Y: "0"}, Op{K: "exit", A: j, P: p.ID, X: oddShares})
				}
			}
			ops = append(ops,
				Op{K: "jshare", A: other(last.Creator), P: last.ID, D: l0, X: oneShare, Y: last.pct(l0, 50).String()},
				Op{K: "eextern", A: last.Creator, P: last.ID, D: l0, X: "1000", Y: "50000000000000000000"},
			)
			if np > 1 && al.Wide {
				ops = append(ops,
					Op{K: "jshare", A: other(first.Creator), P: first.ID, D: f1, X: oneShare, Y: first.pct(f1, 50).String()},
					Op{K: "eextern", A: first.Creator, P: first.ID, D: f1, X: first.pct(f1, 10).String(), Y: "50000000000000000000"},
				)
			}
			if j := other(last.Creator); l.shares(j, last.ID).IsPositive() {
				ops = append(ops, Op{K: "exitall", A: j, P: last.ID})
			}
			// --- tokens sent straight to a pool address
			foreign := ""
			for _, d := range []string{"uosmo", "baz", "bar", "foo"} {
				if !last.has(d) {
					foreign = d
					break
				}
			}
			ops = append(ops, Op{K: "send", A: "B", P: first.ID, D: f0, X: "1000"})
			if foreign != "" && al.Wide {
				ops = append(ops, Op{K: "send", A: "A", P: last.ID, D: foreign, X: "1"})
			}
			// --- atomic transaction whose second message fails
			ops = append(ops, Op{K: "tx", A: other(first.Creator), P: first.ID, X: oneShare, Y: "200000000000000000000"})
		}
		if np < al.MaxPools {
			ops = append(ops, al.Creates...)
		}
		for _, t := range al.Ticks {
			ops = append(ops, Op{K: "tick", T: t})
		}
		return ops
	}
}
