// Command gamm02 is the ledger explorer for property C02: classic (balancer, stableswap) pools and the swap
// router neither create nor lose funds. See DESIGN.md section 5, C02.
package main

import (
	"encoding/json"
	"fmt"
	"os"
	"runtime/debug"
	"runtime/pprof"

	sdk "github.com/cosmos/cosmos-sdk/types"

	"github.com/osmosis-labs/osmosis/v31/zzverif/core"
)

// run is one exhaustive exploration: every history of at most Depth symbols of the alphabet from every seed state,
// in one configuration.
type run struct {
	Cfg   Config
	Seeds []string
	Depth int
	Alpha *Alphabet
	Main  bool // counts for depth_completed
}

var (
	cfgZero    = Config{Name: "taker-fee-0 (genesis default)", DefaultTakerFee: "0"}
	cfgDefault = Config{Name: "default-taker-fee-0.001 (poolmanager param)", DefaultTakerFee: "0.001"}
	cfgPair    = Config{Name: "per-pair-taker-fee-0.01 (admin message), default 0", DefaultTakerFee: "0", ViaAdminMsg: true, PairFees: []PairFee{
		{"foo", "bar", "0.01"}, {"bar", "foo", "0.01"}, {"bar", "baz", "0.01"}, {"uosmo", "foo", "0.01"}}}
	cfgMixed = Config{Name: "per-pair-taker-fee-0.01 (keeper setter) over default 0.001", DefaultTakerFee: "0.001", PairFees: []PairFee{
		{"foo", "bar", "0.01"}, {"baz", "bar", "0.01"}, {"foo", "uosmo", "0.01"}, {"baz", "foo", "0.0005"}}}
)

// stores hashed for state identity: every store a visited state was ever seen to differ from genesis in
// (VERIF_C02_STOREDIFF=1: acc bank distribution downtimedetector epochs gamm ibc incentives poolincentives
// poolmanager protorev staking twap) plus txfees and mint; VERIF_C02_HASHCHECK=1 confirms that this list induces
// the same partition of the visited states as hashing all stores.
var hashedStores = []string{"acc", "bank", "distribution", "downtimedetector", "epochs", "gamm", "ibc", "incentives", "mint",
	"poolincentives", "poolmanager", "protorev", "staking", "twap", "txfees"}

var (
	seeds8 = []string{"bal2", "bal2x", "bal3", "stable2", "stable2s", "stable3", "chain", "worn", "thin", "big"}
	// base alphabet: 21 symbols in a one-pool state, 25 with two pools, 27 with three (one more when the joiner holds shares)
	alphaBase = Alphabet{Creates: []Op{{K: "create", A: "B", C: 0}, {K: "create", A: "A", C: 4}}, MaxPools: 3, LPPools: 3, Ticks: []int{0, 1}}
	// wide alphabet: + amount-1 swap, 3-hop exact-out, reversed single hops, joins by the creator / of 1 share unit / of the
	// other denom, single-asset join and exit for exact amounts on the first pool too, a foreign denom sent to a pool,
	// two more pool templates, a fourth pool, the 1h+1s block boundary
	alphaWide = Alphabet{Creates: []Op{{K: "create", A: "B", C: 0}, {K: "create", A: "A", C: 4}, {K: "create", A: "B", C: 2}, {K: "create", A: "A", C: 5}},
		MaxPools: 4, LPPools: 3, Ticks: []int{0, 1, 2}, Tiny: true, Out3: true, Wide: true}
)

func planFor(tier string) []run {
	if tier != "thorough" {
		return []run{
			{Cfg: cfgZero, Seeds: seeds8, Depth: 3, Alpha: &alphaBase, Main: true},
			{Cfg: cfgDefault, Seeds: seeds8, Depth: 3, Alpha: &alphaBase, Main: true},
			{Cfg: cfgPair, Seeds: seeds8, Depth: 3, Alpha: &alphaBase, Main: true},
		}
	}
	return []run{
		{Cfg: cfgMixed, Seeds: append(append([]string{}, seeds8...), "bal4", "bal8"), Depth: 3, Alpha: &alphaWide},
		{Cfg: cfgDefault, Seeds: seeds8, Depth: 4, Alpha: &alphaBase, Main: true},
		{Cfg: cfgPair, Seeds: seeds8, Depth: 4, Alpha: &alphaBase, Main: true},
		{Cfg: cfgZero, Seeds: []string{"bal2x", "stable2s", "chain", "worn"}, Depth: 4, Alpha: &alphaBase, Main: true},
	}
}

// seedOps drives the world from genesis to a named pool-bearing state through the same Apply path as the explorer,
// so seeds are real reachable states. Every seed ends with a block boundary, which also starts the epoch timers: a
// later 25 h boundary then ends the first hour and day epochs (txfees moves the collected taker fees onward there).
func seedOps(name string) []Op {
	tick := Op{K: "tick", T: 0}
	switch name {
	case "bal2":
		return []Op{{K: "create", A: "A", C: 0}, tick}
	case "bal2x":
		return []Op{{K: "create", A: "B", C: 1}, {K: "create", A: "A", C: 7}, tick}
	case "bal3":
		return []Op{{K: "create", A: "A", C: 2}, tick}
	case "stable2":
		return []Op{{K: "create", A: "B", C: 3}, tick}
	case "stable2s":
		return []Op{{K: "create", A: "A", C: 4}, {K: "create", A: "B", C: 5}, tick}
	case "stable3":
		return []Op{{K: "create", A: "A", C: 6}, tick}
	case "chain":
		// uosmo -> foo -> bar -> baz through three different pools of both kinds
		return []Op{{K: "create", A: "A", C: 7}, {K: "create", A: "A", C: 0}, {K: "create", A: "B", C: 4}, tick}
	case "worn":
		// a mid-life state: joined in every way, traded with fees, tokens sent straight to a pool, partly exited
		return []Op{{K: "create", A: "A", C: 0}, {K: "create", A: "B", C: 3},
			{K: "join", A: "B", P: 1, X: "7000000000000000003", Y: "50"},
			{K: "jswapin", A: "B", P: 1, D: "bar", X: "123457"},
			{K: "jshare", A: "B", P: 1, D: "foo", X: "2000000000000000000", Y: "500000"},
			{K: "swapin", A: "B", X: "77777", Y: "1", R: []Hop{{1, "foo", "bar"}, {2, "bar", "foo"}}},
			{K: "send", A: "A", P: 1, D: "bar", X: "999"},
			{K: "send", A: "B", P: 2, D: "baz", X: "5"},
			{K: "swapout", A: "A", X: "31337", Y: bigLimit, R: []Hop{{2, "foo", "bar"}}},
			{K: "exit", A: "A", P: 1, X: "33333333333333333333"},
			{K: "eshare", A: "B", P: 2, D: "foo", X: "1234567890123456789"},
			tick,
			{K: "swapin", A: "A", X: "4242", Y: "1", R: []Hop{{1, "bar", "foo"}}},
		}
	case "thin":
		// two thin weighted pools; the alphabet adds whale swaps into them
		return []Op{{K: "create", A: "A", C: 10}, {K: "create", A: "B", C: 11}, tick}
	case "big":
		// 18-decimal-scale pools of both kinds; the alphabet adds all-asset joins and exits of an odd share amount
		return []Op{{K: "create", A: "A", C: 12}, {K: "create", A: "B", C: 13}, {K: "create", A: "A", C: 14}, tick}
	case "bal4":
		return []Op{{K: "create", A: "A", C: 8}, {K: "create", A: "B", C: 6}, tick}
	case "bal8":
		return []Op{{K: "create", A: "A", C: 9}, tick}
	}
	panic("unknown seed " + name)
}

func buildSeed(w *World, name string, fail func(a, s, d string)) (sdk.Context, *Ledger, error) {
	ctx, _ := w.Env.Ctx.CacheContext()
	l := newLedger()
	w.Check(ctx, l, fail)
	for _, op := range seedOps(name) {
		var out string
		ctx, out = w.Apply(ctx, l, op, fail)
		if out != "ok" {
			return ctx, l, fmt.Errorf("seed %s: op %s: %s", name, op, out)
		}
	}
	return ctx, l, nil
}

type replayCfg struct {
	Config Config `json:"config"`
	Seed   string `json:"seed_state"`
	Ops    []Op   `json:"ops"`
}

func describe(w *World, ctx sdk.Context, l *Ledger) {
	for _, p := range l.Pools {
		liq, _ := w.App.PoolManagerKeeper.GetTotalPoolLiquidity(ctx, p.ID)
		sh, _ := w.App.GAMMKeeper.GetTotalPoolShares(ctx, p.ID)
		fmt.Printf("   pool %d %-6s reserves=%s shares=%s balance=%s direct=%s supply=%s\n", p.ID, p.Kind, liq, sh,
			w.App.BankKeeper.GetAllBalances(ctx, p.Addr), p.Direct, w.App.BankKeeper.GetSupply(ctx, "gamm/pool/"+fmt.Sprint(p.ID)).Amount)
	}
	fmt.Printf("   collector=%s community=%s\n", w.App.BankKeeper.GetAllBalances(ctx, w.Collector), w.App.BankKeeper.GetAllBalances(ctx, w.Community))
	for i, fa := range w.FeeAccts[1:] {
		if b := w.App.BankKeeper.GetAllBalances(ctx, fa); !b.IsZero() {
			fmt.Printf("   txfees account %s=%s\n", feeAcctNames[i+1], b)
		}
	}
	if os.Getenv("VERIF_DEBUG") != "" {
		for _, d := range []string{"foo", "bar", "baz"} {
			id, err := w.App.ProtoRevKeeper.GetPoolForDenomPairNoOrder(ctx, "uosmo", d)
			fmt.Printf("   protorev pool for uosmo/%s: %d %v\n", d, id, err)
		}
	}
}

func runReplay(f *core.Flags, r *core.Result) {
	var rp replayCfg
	core.ReadReplay(f.Replay, &rp)
	w := NewWorld(rp.Config, r)
	defer w.Env.Close()
	fail := func(a, s, d string) {
		r.AddViolation(core.Violation{Property: f.Prop, Assertion: a, Signature: s, Detail: d, Replay: rp})
	}
	ctx, l, err := buildSeed(w, rp.Seed, fail)
	if err != nil {
		fmt.Fprintln(os.Stderr, "harness: seed failed during replay:", err)
		os.Exit(2)
	}
	fmt.Printf("seed %s in configuration %q\n", rp.Seed, rp.Config.Name)
	describe(w, ctx, l)
	w.Check(ctx, l, fail)
	r.States++
	for i, op := range rp.Ops {
		var out string
		core.ResetCaches(w.App, ctx)
		ctx, out = w.Apply(ctx, l, op, fail)
		fmt.Printf("step %d %s -> %s\n", i, op, out)
		describe(w, ctx, l)
		w.Check(ctx, l, fail)
		r.Transitions++
		r.States++
	}
	r.Traces = 1
}

func main() {
	f := core.ParseFlags()
	r := core.NewResult(f.Prop)
	debug.SetGCPercent(400) // the explorer allocates short-lived store iterators; the live heap is one application
	if f.Prop != "C02" {
		fmt.Fprintln(os.Stderr, "gamm02: unknown property", f.Prop)
		os.Exit(2)
	}
	if f.Replay != "" {
		runReplay(f, r)
		core.Finish(f, r)
		return
	}
	pl := planFor(f.Tier)
	if v := os.Getenv("VERIF_C02_PROF"); v != "" { // development aid
		fh, _ := os.Create(v)
		pprof.StartCPUProfile(fh)
		defer pprof.StopCPUProfile()
	}
	if v := os.Getenv("VERIF_C02_DEPTH"); v != "" { // development aid
		for i := range pl {
			fmt.Sscan(v, &pl[i].Depth)
		}
	}
	allSeen := core.NewSeen()
	var cfgNames []string
	runs := map[string]interface{}{}
	sizes := map[string]interface{}{}
	alphas := map[string]interface{}{}
	planned, completed, mainDepth := 0, 0, 0
	for ci, rn := range pl {
		cfg := rn.Cfg
		w := NewWorld(cfg, r)
		w.Stores = hashedStores
		dev.newWorld(w)
		cfgNames = append(cfgNames, cfg.Name)
		if ci == 0 && f.Shard == 0 {
			// self-check: the base state is a deterministic function of the configuration
			w2 := NewWorld(cfg, core.NewResult(f.Prop))
			if core.StateHash(w.App, w.Env.Ctx, nil) != core.StateHash(w2.App, w2.Env.Ctx, nil) {
				fmt.Fprintln(os.Stderr, "harness: two constructions of the base state differ")
				os.Exit(2)
			}
			w2.Env.Close()
		}
		sc := &core.Scenario[Op, *Ledger]{
			App: w.App, Stores: hashedStores, Config: cfg,
			Enabled: w.Enabled(rn.Alpha),
			Apply:   w.Apply,
			Check:   w.Check,
		}
		bz, _ := json.Marshal(rn.Alpha)
		alphas[cfg.Name] = string(bz)
		for _, seed := range rn.Seeds {
			planned++
			if f.Expired() {
				r.Exhaustive = false
				break
			}
			rp := replayCfg{Config: cfg, Seed: seed}
			seedFail := func(a, s, d string) {
				if s == "" {
					s = "seed:" + seed
				}
				r.AddViolation(core.Violation{Property: f.Prop, Assertion: a, Signature: s, Detail: d, Replay: rp})
			}
			if f.Shard != 0 {
				seedFail = func(a, s, d string) {}
			}
			ctx, l, err := buildSeed(w, seed, seedFail)
			if err != nil {
				// a seed that cannot be built is skipped, visibly, and the run is not exhaustive
				r.Rejected["seed-unbuildable: "+err.Error()]++
				r.Exhaustive = false
				continue
			}
			ex := core.NewExplorer(sc, f, r)
			before := r.Exhaustive
			ex.Run(seed, ctx, l, rn.Depth)
			if before && r.Exhaustive {
				completed++
			}
			name := fmt.Sprintf("%s | %s", cfg.Name, seed)
			runs[name] = fmt.Sprintf("depth %d", rn.Depth)
			sizes[name] = len(sc.Enabled(ctx, l, 0))
			for k := range ex.Seen {
				var h [32]byte
				copy(h[:], k[:])
				h[15] ^= byte(ci + 1) // separate configurations never share states
				allSeen.Add(h)
			}
		}
		if rn.Main && (mainDepth == 0 || rn.Depth < mainDepth) {
			mainDepth = rn.Depth
		}
		w.Env.Close()
	}
	allSeen.Dump(f.HashOut)
	dev.report()
	// the explorer reports the smallest depth of any run; the wide-alphabet runs of the thorough tier are deliberately
	// one level shallower than the main runs and are listed separately in coverage.runs
	if r.Exhaustive && mainDepth > 0 {
		r.DepthCompleted = mainDepth
	}
	r.Extra["sum_runs_planned"] = planned
	r.Extra["sum_runs_completed"] = completed
	r.Extra["configurations"] = cfgNames
	r.Extra["alphabet_parameters"] = alphas
	r.Extra["alphabet_size_in_seed_state"] = sizes
	r.Extra["runs"] = runs
	r.Extra["hashed_stores"] = hashedStores
	var tn []string
	for i, t := range templates {
		tn = append(tn, fmt.Sprintf("%d: %s", i, t.Name))
	}
	r.Extra["pool_templates"] = tn
	var sd []string
	for _, n := range append(append([]string{}, seeds8...), "bal4", "bal8") {
		x := n + ":"
		for _, o := range seedOps(n) {
			x += " " + o.String()
		}
		sd = append(sd, x)
	}
	r.Extra["seed_states"] = sd
	r.Outcomes = int64(len(r.Rejected) + 1)
	core.Finish(f, r)
}
