package main

import (
	"fmt"
	"sort"

	sdkmath "cosmossdk.io/math"
	sdk "github.com/cosmos/cosmos-sdk/types"

	gammkeeper "github.com/osmosis-labs/osmosis/v31/x/gamm/keeper"
	gammtypes "github.com/osmosis-labs/osmosis/v31/x/gamm/types"

	"github.com/osmosis-labs/osmosis/v31/zzverif/core"
)

// Check is the state invariant of C02, evaluated in every distinct state.
//
//  1. for every pool: bank balance(pool address) = reserves the pool reports + tokens sent to it directly
//  2. for every pool: bank supply(gamm/pool/N) = total shares the pool reports (and A's and B's share balances are
//     what the responses said)
//  3. supply of every non-share denom = its genesis supply (nothing minted, nothing burned)
//  4. the balances of all accounts sum to the supply per denom, and every account holding anything is one the
//     scenario knows: A, B, the genesis holders, a pool, a module account, the null ("burn") address
//  5. the pools in the store are exactly the ledger's
//  6. the gamm module's own registered invariant holds
func (w *World) Check(ctx sdk.Context, l *Ledger, fail func(a, s, d string)) {
	a := w.App
	vac := w.R.Vacuity
	s := l.snap
	if s == nil {
		s = w.snap(ctx)
		l.snap = s
	}
	dev.visit(w, ctx, w.Stores)

	// 5. pool set
	next := a.PoolManagerKeeper.GetNextPoolId(ctx)
	if next != uint64(len(l.Pools))+1 {
		fail("c02.pool-set", "", fmt.Sprintf("next pool id %d, ledger has %d pools", next, len(l.Pools)))
	}
	var stored []gammtypes.CFMMPoolI
	if err := core.Try(func() (e error) { stored, e = a.GAMMKeeper.GetPoolsAndPoke(ctx); return }); err != nil {
		fail("c02.pools-readable", "", err.Error())
		return
	}
	if len(stored) != len(l.Pools) {
		fail("c02.pool-set", "", fmt.Sprintf("gamm stores %d pools, ledger has %d", len(stored), len(l.Pools)))
	}

	known := map[string]bool{}
	for k := range w.Known {
		known[k] = true
	}
	shareSupplyWant := map[string]sdkmath.Int{}
	for i := range l.Pools {
		p := &l.Pools[i]
		known[string(p.Addr)] = true
		var liq sdk.Coins
		var shares sdkmath.Int
		err := core.Try(func() error {
			var e error
			liq, e = a.PoolManagerKeeper.GetTotalPoolLiquidity(ctx, p.ID)
			if e != nil {
				return e
			}
			shares, e = a.GAMMKeeper.GetTotalPoolShares(ctx, p.ID)
			return e
		})
		if err != nil {
			fail("c02.pool-readable", "", fmt.Sprintf("pool %d: %v", p.ID, err))
			continue
		}
		// 1.
		bal := s.Bal[string(p.Addr)]
		want := liq.Add(p.Direct...)
		if !bal.Equal(want) {
			fail("c02.pool-balance-equals-reserves-plus-direct-sends", "", fmt.Sprintf("pool %d (%s): account holds %s, pool reports reserves %s, direct sends %s", p.ID, p.Kind, bal, liq, p.Direct))
		}
		if len(liq) != len(p.Denoms) || !liq.IsAllPositive() {
			fail("c02.pool-reserves-positive", "", fmt.Sprintf("pool %d reports reserves %s for denoms %v", p.ID, liq, p.Denoms))
		}
		if !p.Direct.IsZero() {
			vac["direct_send_observed_in_invariant"]++
		}
		// 2.
		sd := gammtypes.GetPoolShareDenom(p.ID)
		shareSupplyWant[sd] = shares
		if sup := s.Sup.AmountOf(sd); !sup.Equal(shares) {
			fail("c02.share-supply-equals-total-shares", "", fmt.Sprintf("pool %d: bank supply of %s is %s, pool reports total shares %s", p.ID, sd, sup, shares))
		}
		for _, n := range accounts {
			if got := s.Bal[string(core.Acc(n))].AmountOf(sd); !got.Equal(l.shares(n, p.ID)) {
				fail("c02.share-holdings-match-responses", "", fmt.Sprintf("%s holds %s %s, responses add up to %s", n, got, sd, l.shares(n, p.ID)))
			}
		}
	}

	// 3. supplies
	for _, c := range w.Genesis.Sup {
		if got := s.Sup.AmountOf(c.Denom); !got.Equal(c.Amount) {
			fail("c02.non-share-supply-constant", "", fmt.Sprintf("supply of %s is %s, at genesis %s", c.Denom, got, c.Amount))
		}
	}
	for _, c := range s.Sup {
		if isShare(c.Denom) {
			if _, ok := shareSupplyWant[c.Denom]; !ok {
				fail("c02.share-denom-without-pool", "", fmt.Sprintf("supply %s exists for no pool of the ledger", c))
			}
			continue
		}
		if w.Genesis.Sup.AmountOf(c.Denom).IsZero() {
			fail("c02.non-share-supply-constant", "", fmt.Sprintf("denom %s (supply %s) did not exist at genesis", c.Denom, c.Amount))
		}
	}

	// 4. balances sum to supply; only known holders
	sum := sdk.NewCoins()
	keys := make([]string, 0, len(s.Bal))
	for k := range s.Bal {
		keys = append(keys, k)
	}
	sort.Strings(keys)
	for _, k := range keys {
		sum = sum.Add(s.Bal[k]...)
		if !known[k] {
			fail("c02.no-unknown-holder", "", fmt.Sprintf("account %s holds %s and is neither a user, a pool, a module account nor the null address", sdk.AccAddress(k), s.Bal[k]))
		}
	}
	if !sum.Equal(s.Sup) {
		fail("c02.balances-sum-to-supply", "", fmt.Sprintf("balances sum to %s, supply is %s", sum, s.Sup))
	}
	if !s.Bal[string(w.Collector)].IsZero() {
		vac["states_with_taker_fees_in_collector"]++
	}
	for _, fa := range w.FeeAccts[1:] {
		if !s.Bal[string(fa)].IsZero() {
			vac["states_with_taker_fees_moved_onward"]++
			break
		}
	}

	// 6. the module's own invariant (pool balance >= reserves), cheap: one pass over the pools
	if err := core.Try(func() error {
		if msg, broken := gammkeeper.AllInvariants(*a.GAMMKeeper, a.BankKeeper)(ctx); broken {
			return fmt.Errorf("%s", msg)
		}
		return nil
	}); err != nil {
		fail("c02.gamm-registered-invariant", "", err.Error())
	}
}
