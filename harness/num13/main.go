// Command num13 decides C13 ("approximate math functions meet their stated error bounds and are
// monotone") by bounded-exhaustive enumeration (engine C): for every function a finite structured
// lattice of inputs is enumerated completely, the real osmomath code is executed on every point and
// the result is compared with a 768-bit reference (ref.go) or, for the square roots, the
// significant-figure rounding and the binary searches, with an exact integer/rational test.
package main

import (
	"fmt"
	"math/big"
	"os"
	"sort"
	"strings"

	om "github.com/osmosis-labs/osmosis/osmomath"
	core "github.com/osmosis-labs/osmosis/osmomath/zzverif/res"
)

// Case is the replayable form of one lattice point.
type Case struct {
	Fn string            `json:"fn"`
	In []string          `json:"in,omitempty"`
	P  map[string]string `json:"p,omitempty"`
}

func (cs Case) sig() string {
	s := cs.Fn
	for _, x := range cs.In {
		s += "|" + x
	}
	if len(cs.P) > 0 {
		ks := make([]string, 0, len(cs.P))
		for k := range cs.P {
			ks = append(ks, k)
		}
		sort.Strings(ks)
		for _, k := range ks {
			s += "|" + k + "=" + cs.P[k]
		}
	}
	return s
}

type ctx struct {
	f        *core.Flags
	r        *core.Result
	thorough bool
	maxRatio map[string]float64 // worst observed error / allowed error, per function
	nviol    map[string]int64
}

// failure is one failed oracle evaluation; report turns it into a violation.
type failure struct {
	assertion string
	cs        Case
	detail    string
}

func (c *ctx) fail(assertion string, cs Case, detail string) *failure {
	c.nviol[assertion]++
	if dumpAll {
		fmt.Fprintf(os.Stderr, "FAIL\t%s\t%s\t%s\n", assertion, cs.sig(), detail)
	}
	return &failure{assertion, cs, detail}
}

func (c *ctx) report(f *failure) {
	if f == nil {
		return
	}
	c.r.AddViolation(core.Violation{Property: "C13", Assertion: f.assertion, Signature: f.cs.sig(), Detail: f.detail, Replay: f.cs})
}

func (c *ctx) ratio(fn string, err, bound *big.Float) {
	if bound.Sign() == 0 {
		return
	}
	q, _ := fquo(err, bound).Float64()
	if q > c.maxRatio[fn] {
		c.maxRatio[fn] = q
	}
}

func (c *ctx) vac(k string) { c.r.Vacuity[k]++ }

// NUM13_DUMP=1 prints every failing lattice point to stderr (diagnostic for region analysis).
var dumpAll = os.Getenv("NUM13_DUMP") != ""

type item struct {
	name string
	run  func(c *ctx)
}

func try(fn func()) (panicked bool, msg string) {
	defer func() {
		if r := recover(); r != nil {
			panicked = true
			msg = fmt.Sprint(r)
			if len(msg) > 160 {
				msg = msg[:160]
			}
		}
	}()
	fn()
	return
}

// ---- scaled-integer <-> decimal string -------------------------------------------------------

func fmtDec(v *big.Int, prec int) string {
	a := new(big.Int).Abs(v)
	s := a.String()
	if len(s) <= prec {
		s = strings.Repeat("0", prec-len(s)+1) + s
	}
	ip, fp := s[:len(s)-prec], strings.TrimRight(s[len(s)-prec:], "0")
	out := ip
	if fp != "" {
		out += "." + fp
	}
	if v.Sign() < 0 {
		out = "-" + out
	}
	return out
}

func parseDec(s string, prec int) *big.Int {
	r, ok := new(big.Rat).SetString(s)
	if !ok {
		fmt.Fprintln(os.Stderr, "num13: bad decimal in replay:", s)
		os.Exit(2)
	}
	r.Mul(r, new(big.Rat).SetInt(pow10i(prec)))
	if !r.IsInt() {
		fmt.Fprintln(os.Stderr, "num13: decimal has too many places:", s)
		os.Exit(2)
	}
	return new(big.Int).Set(r.Num())
}

func bi(x int64) *big.Int           { return big.NewInt(x) }
func bmul(a, b *big.Int) *big.Int   { return new(big.Int).Mul(a, b) }
func badd(a, b *big.Int) *big.Int   { return new(big.Int).Add(a, b) }
func bsub(a, b *big.Int) *big.Int   { return new(big.Int).Sub(a, b) }
func bquo(a, b *big.Int) *big.Int   { return new(big.Int).Quo(a, b) }
func bpow2(k int) *big.Int          { return new(big.Int).Lsh(bi(1), uint(k)) }
func bigDec(v *big.Int) om.BigDec   { return om.NewBigDecFromBigIntWithPrec(v, 36) }
func dec(v *big.Int) om.Dec         { return om.NewDecFromBigIntWithPrec(v, 18) }
func bstr(s string, p int) *big.Int { return parseDec(s, p) }
func sortUniq(xs []*big.Int) []*big.Int {
	sort.Slice(xs, func(i, j int) bool { return xs[i].Cmp(xs[j]) < 0 })
	out := xs[:0]
	for i, x := range xs {
		if i == 0 || x.Cmp(xs[i-1]) != 0 {
			out = append(out, x)
		}
	}
	return out
}

// ---- driver ----------------------------------------------------------------------------------

func main() {
	f := core.ParseFlags()
	if f.Prop == "" {
		f.Prop = "C13"
	}
	r := core.NewResult(f.Prop)
	initRef()
	initTol()
	if msg := selfTest(); msg != "" {
		fmt.Fprintln(os.Stderr, "num13: reference self-test failed:", msg)
		os.Exit(3)
	}
	c := &ctx{f: f, r: r, thorough: f.Tier == "thorough", maxRatio: map[string]float64{}, nviol: map[string]int64{}}
	r.Extra["reference"] = fmt.Sprintf("big.Float %d bits; exp/ln by argument reduction + series; self-test (identities, Newton-on-exp, Machin-like ln2, published literals) passed", refPrec)

	if f.Replay != "" {
		var cs Case
		core.ReadReplay(f.Replay, &cs)
		replay(c, cs)
		finish(c)
		return
	}

	its := allItems(c.thorough)
	done := 0
	for i, it := range its {
		if !f.Mine(i) {
			continue
		}
		if f.Expired() {
			r.Exhaustive = false
			break
		}
		it.run(c)
		done++
	}
	r.Extra["sum_work_items_done"] = done
	r.Extra["work_items_total"] = len(its)
	r.Extra["lattice"] = latticeDescription(c.thorough)
	r.DepthCompleted = 1
	finish(c)
}

func finish(c *ctx) {
	for k, v := range c.maxRatio {
		c.r.Extra["max_err_over_bound_"+k] = v
	}
	for k, v := range c.nviol {
		c.r.Extra["sum_failing_points_"+k] = v
	}
	core.Finish(c.f, c.r)
}
