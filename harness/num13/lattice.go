package main

// Input lattices (DESIGN.md §C13) cut into independent work items that are dealt to the shards.
// Item order and content depend only on the tier, never on the shard count.
//
// Functions whose oracle fails on a whole region of the lattice (the derived logarithms, Pow) are
// enumerated with one work item per group (function × base, function × side of 1); the item reports
// ONE violation per assertion — the failing point closest to the passing region — and describes the
// extent of the failing set in the detail text and in evidence extra["region …"].  That keeps the
// set of signatures small, stable and independent of the shard count, while any widening of a
// failing region moves its boundary point and therefore shows up as a new signature.

import (
	"fmt"
	"math/big"
	"os"
	"sort"
	"strings"
)

func latticeDescription(thorough bool) map[string]string {
	t := "quick"
	if thorough {
		t = "thorough"
	}
	cf := cfg(thorough)
	return map[string]string{
		"tier":                              t,
		"Exp2":                              fmt.Sprintf("x = n + k/%d (k=0..%d) for n in %v, plus n+10^-j, n+1-10^-j (j=1..36), n+j/1000 for n in {0,511}; edges 0, ulp, 512, 512-ulp; outside: -ulp, -1, -512, -max, 512+ulp, 513, 1024, max", cf.expK, cf.expK, cf.expNs),
		"LogBase2":                          fmt.Sprintf("x = trunc36(2^k(1+j/4096)): k in {-1,0,1} with j step %d, k = -119..%d step %d with j step %d; 10^e (e=-36..308); 2^k±ulp (k=-100..1000 step 50); ulp,2ulp,3ulp,1±ulp,2±ulp,2^1024-1,2^1144-1 (scaled); outside: 0,-ulp,-1,-max", cf.logDenseStep, cf.logKMax, cf.logKStep, cf.logCoarseStep),
		"Ln,TickLog,CustomBaseLog":          "same in both tiers: k = -119..1020 step 7 with j step 512, k in {-1,0,1} with j step 16, 10^e (e=-36..308 step 4), edge set; CustomBaseLog bases " + strings.Join(customBases, ", ") + "; outside bases 0,-ulp,-1,1",
		"Pow":                               fmt.Sprintf("base j/%d (j=1..%d) x exponent {0,1/2,0.333333333333333333,0.1,0.9,1,1.5,7.25,10.5,ulp,1±ulp,k/%d (k<=%d)}; edge bases ulp,2ulp,1±ulp,2-ulp,2-2ulp x reduced exponent set; outside: base 0,-ulp,-1,2,2+ulp,3,2^255; exponent -ulp,-0.5,-1,-1.5", cf.powBaseDen, 2*cf.powBaseDen-1, cf.powExpDen, 3*cf.powExpDen),
		"PowApprox":                         fmt.Sprintf("base j/%d (j=1..%d, includes 2) x exponent {k/%d (k<%d),0.333333333333333333,0.1,0.9,ulp,1-ulp}, precision 1e-8; edge bases as Pow plus 2; outside: base 0,-ulp,2+ulp,3; exponent 1,1.5,-0.5", cf.powBaseDen, 2*cf.powBaseDen, cf.powExpDen, cf.powExpDen),
		"MonotonicSqrt,MonotonicSqrtBigDec": fmt.Sprintf("sorted lattice {m^2, m^2±ulp : m in 0..%d, 10^a(±1), 2^a(±1), isqrt(max)-3..}, 10^e(±ulp), ulp, max, max-ulp; four dense runs of %d consecutive ulps (at 0, around 1, around 10^18 resp. 10^36, below max); negatives -ulp,-1,-max", cf.sqrtSmallM, cf.sqrtRun),
		"SigFigRound":                       fmt.Sprintf("%d digit patterns (prefix families x tie/near-tie suffixes%s) x every decimal position up to 60 digits x s=1..18; 0; overflow edge 10^58..10^77; negatives", len(sigFigPatterns(thorough)), map[bool]string{true: ", all 1-3 digit prefixes", false: ""}[thorough]),
		"BinarySearch,BinarySearchBigDec":   "f in {id,3x+1,x^3,step(,err)} x 5-6 bound pairs x ~10 targets x additive {nil,0,1,1000} x multiplicative {nil,1e-12,1e-3} x {unconstrained,up,down} x maxIterations {1,5,50,300}",
	}
}

type config struct {
	expNs                                          []int
	expK, expChunk                                 int
	logDenseStep, logCoarseStep, logKStep, logKMax int
	powBaseDen, powExpDen                          int
	sqrtSmallM, sqrtRun                            int
}

func cfg(thorough bool) config {
	if thorough {
		return config{
			expNs: []int{0, 1, 2, 3, 4, 5, 6, 7, 8, 9, 10, 11, 12, 13, 14, 15, 16, 31, 32, 63, 64, 100, 127, 128, 200, 255, 256, 300, 400, 500, 510, 511},
			expK:  65536, expChunk: 4096,
			logDenseStep: 1, logCoarseStep: 4, logKStep: 1, logKMax: 1020,
			powBaseDen: 1024, powExpDen: 64,
			sqrtSmallM: 100000, sqrtRun: 4000000,
		}
	}
	return config{
		expNs: []int{0, 1, 2, 3, 10, 63, 64, 255, 511},
		expK:  1024, expChunk: 1025,
		logDenseStep: 1, logCoarseStep: 64, logKStep: 7, logKMax: 1020,
		powBaseDen: 64, powExpDen: 16,
		sqrtSmallM: 2048, sqrtRun: 500000,
	}
}

var customBases = []string{"2", "10", "0.5", "1.0001", "2.718281828459045235360287471352662498", "1.5", "4", "0.1", "100",
	"18446744073709551616", "1.000000000000000000000000000000000001", "1.000000000000000000000000000000000002",
	"0.999999999999999999999999999999999999", "0.000000000000000000000000000000000001", "0.9999", "1.000001"}

func (c *ctx) expired() bool {
	if c.f.Expired() {
		c.r.Exhaustive = false
		return true
	}
	return false
}

// ---- per-group aggregation of failures ---------------------------------------------------------

type grp struct {
	best     *failure
	bestRank *big.Float
	count    int
}

type aggregator struct {
	order []string
	m     map[string]*grp
}

func newAgg() *aggregator { return &aggregator{m: map[string]*grp{}} }

// add keeps, per assertion, the failure of least rank.
func (a *aggregator) add(f *failure, rank *big.Float) {
	g := a.m[f.assertion]
	if g == nil {
		g = &grp{}
		a.m[f.assertion] = g
		a.order = append(a.order, f.assertion)
	}
	g.count++
	if g.best == nil || rank.Cmp(g.bestRank) < 0 {
		g.best, g.bestRank = f, rank
	}
}

func (a *aggregator) flush(c *ctx, groupName string, note func(assertion string, g *grp) string) {
	sort.Strings(a.order)
	for _, as := range a.order {
		g := a.m[as]
		n := note(as, g)
		c.r.Extra["region "+as+" "+groupName] = n
		f := *g.best
		f.detail = f.detail + " || " + n
		c.report(&f)
	}
}

// logPoint: trunc(2^k·(4096+j)/4096 · 10^36)
func logPoint(k, j int) *big.Int {
	n := bmul(bi(int64(4096+j)), one36)
	if k >= 0 {
		n.Lsh(n, uint(k))
		return n.Quo(n, bi(4096))
	}
	return n.Quo(n, new(big.Int).Lsh(bi(4096), uint(-k)))
}

func logEdges() []*big.Int {
	xs := []*big.Int{bi(1), bi(2), bi(3), bsub(one36, bi(1)), new(big.Int).Set(one36), badd(one36, bi(1)),
		bsub(bmul(bi(2), one36), bi(1)), bmul(bi(2), one36), badd(bmul(bi(2), one36), bi(1)), maxV1024, maxV1144,
		bi(0), bi(-1), new(big.Int).Neg(one36), new(big.Int).Neg(maxV1024)}
	for k := -100; k <= 1000; k += 50 {
		p := logPoint(k, 0)
		xs = append(xs, bsub(p, bi(1)), badd(p, bi(1)))
	}
	return xs
}

func derivedXs() []*big.Int {
	var xs []*big.Int
	for k := -119; k <= 1020; k += 7 {
		for j := 0; j < 4096; j += 512 {
			xs = append(xs, logPoint(k, j))
		}
	}
	for _, k := range []int{-1, 0, 1} {
		for j := 0; j <= 4096; j += 16 {
			xs = append(xs, logPoint(k, j))
		}
	}
	for e := -36; e <= 308; e += 4 {
		xs = append(xs, pow10i(e+36))
	}
	xs = append(xs, logEdges()...)
	var out []*big.Int
	for _, x := range sortUniq(xs) {
		if x.BitLen() <= 1144 {
			out = append(out, x)
		}
	}
	return out
}

// derivedLogItem enumerates the derived-logarithm lattice for one (function, base).
func derivedLogItem(c *ctx, fn string, bv *big.Int) {
	ag := newAgg()
	total := 0
	var maxPass *big.Float
	for _, x := range derivedXs() {
		if c.expired() {
			break
		}
		f, T := c.checkLog(fn, x, bv)
		if T == nil { // outside the domain
			c.report(f)
			continue
		}
		total++
		if f != nil {
			ag.add(f, T)
		} else if maxPass == nil || T.Cmp(maxPass) > 0 {
			maxPass = T
		}
	}
	name := fn
	if bv != nil {
		name += " base " + fmtDec(bv, 36)
	}
	ag.flush(c, name, func(as string, g *grp) string {
		mp := "none pass"
		if maxPass != nil {
			mp = maxPass.Text('g', 12)
		}
		return fmt.Sprintf("%d of the %d in-domain lattice points of %s fail this assertion; the reported case is the failing point with the smallest |log_b x| = %s; largest |log_b x| among the points that satisfy every assertion = %s",
			g.count, total, name, g.bestRank.Text('g', 12), mp)
	})
}

func powExps(den int, upTo int, fn string) []*big.Int {
	var es []*big.Int
	for k := 0; k <= upTo; k++ {
		es = append(es, bquo(bmul(bi(int64(k)), one18), bi(int64(den))))
	}
	es = append(es, bstr("0.333333333333333333", 18), bstr("0.1", 18), bstr("0.9", 18), bi(1), bsub(one18, bi(1)))
	if fn == "Pow" {
		es = append(es, badd(one18, bi(1)), bstr("7.25", 18), bstr("10.5", 18))
	}
	return sortUniq(es)
}

// powItem enumerates Pow / PowApprox on one side of base 1 (below: base < 1; above: base ≥ 1).
func powItem(c *ctx, cf config, fn string, below bool) {
	two18 := bmul(bi(2), one18)
	upTo := 3 * cf.powExpDen
	jMax := 2*cf.powBaseDen - 1
	if fn == "PowApprox" {
		upTo = cf.powExpDen - 1
		jMax = 2 * cf.powBaseDen
	}
	es := powExps(cf.powExpDen, upTo, fn)
	if fn == "PowApprox" {
		var in []*big.Int
		for _, e := range es {
			if e.Cmp(one18) < 0 {
				in = append(in, e)
			}
		}
		es = in
	}
	// edge bases are expensive (the series runs to its iteration limit): reduced exponent set
	redExps := []*big.Int{bi(0), bi(1), bstr("0.1", 18), bstr("0.333333333333333333", 18), bstr("0.5", 18), bstr("0.9", 18), bsub(one18, bi(1))}
	if fn == "Pow" {
		redExps = append(redExps, new(big.Int).Set(one18), bstr("1.5", 18), bstr("7.25", 18))
	}
	type pt struct {
		b  *big.Int
		es []*big.Int
	}
	var pts []pt
	if below {
		pts = append(pts, pt{bi(1), redExps}, pt{bi(2), redExps})
		for j := 1; j < cf.powBaseDen; j++ {
			pts = append(pts, pt{bquo(bmul(bi(int64(j)), one18), bi(int64(cf.powBaseDen))), es})
		}
		pts = append(pts, pt{bsub(one18, bi(1)), es})
	} else {
		pts = append(pts, pt{badd(one18, bi(1)), es})
		for j := cf.powBaseDen; j <= jMax; j++ {
			pts = append(pts, pt{bquo(bmul(bi(int64(j)), one18), bi(int64(cf.powBaseDen))), es})
		}
		pts = append(pts, pt{bsub(two18, bi(2)), redExps}, pt{bsub(two18, bi(1)), redExps})
	}
	ag := newAgg()
	type est struct {
		nFail, nTot       int
		nearFail, farPass *big.Int // failing base closest to 1; passing base farthest from 1
	}
	per := map[string]map[string]*est{} // assertion -> exponent -> stats
	tot := map[string]*est{}            // exponent -> evaluated
	total := 0
	big30 := pow10i(30)
	for _, p := range pts {
		for _, e := range p.es {
			if c.expired() {
				break
			}
			f := c.checkPow(fn, p.b, e)
			total++
			ek := fmtDec(e, 18)
			if tot[ek] == nil {
				tot[ek] = &est{}
			}
			tot[ek].nTot++
			dist := new(big.Int).Abs(bsub(p.b, one18))
			if f == nil {
				if tot[ek].farPass == nil || dist.Cmp(new(big.Int).Abs(bsub(tot[ek].farPass, one18))) > 0 {
					tot[ek].farPass = p.b
				}
				continue
			}
			// rank: distance of the base from 1, then the exponent
			rank := fbi(badd(bmul(dist, big30), e))
			ag.add(f, rank)
			if per[f.assertion] == nil {
				per[f.assertion] = map[string]*est{}
			}
			s := per[f.assertion][ek]
			if s == nil {
				s = &est{}
				per[f.assertion][ek] = s
			}
			s.nFail++
			if s.nearFail == nil || dist.Cmp(new(big.Int).Abs(bsub(s.nearFail, one18))) < 0 {
				s.nearFail = p.b
			}
		}
	}
	side := "base>=1"
	if below {
		side = "base<1"
	}
	ag.flush(c, fn+" "+side, func(as string, g *grp) string {
		var eks []string
		for ek := range per[as] {
			eks = append(eks, ek)
		}
		sort.Slice(eks, func(i, j int) bool { return parseDec(eks[i], 18).Cmp(parseDec(eks[j], 18)) < 0 })
		var sb strings.Builder
		fmt.Fprintf(&sb, "%d of the %d lattice points of %s %s fail this assertion; the reported case is the failing point whose base is closest to 1; per exponent [failing bases/evaluated, failing base closest to 1, passing base farthest from 1]:", g.count, total, fn, side)
		for _, ek := range eks {
			s := per[as][ek]
			fp := "-"
			if tot[ek].farPass != nil {
				fp = fmtDec(tot[ek].farPass, 18)
			}
			fmt.Fprintf(&sb, " e=%s[%d/%d,%s,%s]", ek, s.nFail, tot[ek].nTot, fmtDec(s.nearFail, 18), fp)
		}
		return sb.String()
	})
}

func allItems(thorough bool) []item {
	cf := cfg(thorough)
	var its []item
	add := func(name string, run func(c *ctx)) { its = append(its, item{name, run}) }

	// ---------------- Exp2
	for _, n := range cf.expNs {
		n := n
		base := bmul(bi(int64(n)), one36)
		step := bquo(one36, bi(int64(cf.expK)))
		for lo := 0; lo <= cf.expK; lo += cf.expChunk {
			lo := lo
			hi := lo + cf.expChunk
			if hi > cf.expK+1 {
				hi = cf.expK + 1
			}
			add(fmt.Sprintf("exp2 n=%d k=%d..%d", n, lo, hi-1), func(c *ctx) {
				for k := lo; k < hi && !c.expired(); k++ {
					c.report(c.checkExp2(badd(base, bmul(step, bi(int64(k))))))
				}
			})
		}
		add(fmt.Sprintf("exp2 n=%d near-integer", n), func(c *ctx) {
			for j := 1; j <= 36; j++ {
				t := pow10i(36 - j)
				c.report(c.checkExp2(badd(base, t)))
				c.report(c.checkExp2(bsub(badd(base, one36), t)))
			}
			if n == 0 || n == 511 {
				for j := 0; j < 1000; j++ {
					c.report(c.checkExp2(badd(base, bmul(bi(int64(j)), pow10i(33)))))
				}
			}
		})
	}
	add("exp2 domain edges and outside", func(c *ctx) {
		for _, v := range []*big.Int{bi(0), bi(1), exp2MaxV, bsub(exp2MaxV, bi(1)), bsub(exp2MaxV, pow10i(18)),
			badd(exp2MaxV, bi(1)), bmul(bi(513), one36), bmul(bi(1024), one36), maxV1024, maxV1144,
			bi(-1), new(big.Int).Neg(one36), new(big.Int).Neg(exp2MaxV), new(big.Int).Neg(maxV1024)} {
			c.report(c.checkExp2(v))
		}
	})

	// ---------------- LogBase2
	log2 := func(c *ctx, x *big.Int) {
		f, _ := c.checkLog("LogBase2", x, nil)
		c.report(f)
	}
	ks := map[int]bool{}
	for k := -119; k <= cf.logKMax; k += cf.logKStep {
		ks[k] = true
	}
	for k := -119; k <= cf.logKMax; k++ {
		if !ks[k] && k != -1 && k != 0 && k != 1 {
			continue
		}
		k := k
		if k >= -1 && k <= 1 {
			for lo := 0; lo < 4096; lo += 512 {
				lo := lo
				add(fmt.Sprintf("log2 dense k=%d j=%d..", k, lo), func(c *ctx) {
					for j := lo; j < lo+512 && !c.expired(); j += cf.logDenseStep {
						log2(c, logPoint(k, j))
					}
				})
			}
			continue
		}
		add(fmt.Sprintf("log2 k=%d", k), func(c *ctx) {
			var prev *big.Int
			for j := 0; j < 4096 && !c.expired(); j += cf.logCoarseStep {
				x := logPoint(k, j)
				if x.Sign() == 0 || x.BitLen() > 1144 || (prev != nil && prev.Cmp(x) == 0) {
					continue
				}
				prev = x
				log2(c, x)
			}
		})
	}
	add("log2 powers of ten", func(c *ctx) {
		for e := -36; e <= 308; e++ {
			log2(c, pow10i(e+36))
		}
	})
	add("log2 edges and outside", func(c *ctx) {
		for _, x := range logEdges() {
			log2(c, x)
		}
	})

	// ---------------- Ln, TickLog, CustomBaseLog (lattice identical in both tiers)
	for _, fn := range []string{"Ln", "TickLog"} {
		fn := fn
		add(fn, func(c *ctx) { derivedLogItem(c, fn, nil) })
	}
	for _, b := range customBases {
		bv := bstr(b, 36)
		add("CustomBaseLog base "+b, func(c *ctx) { derivedLogItem(c, "CustomBaseLog", bv) })
	}
	add("CustomBaseLog outside bases", func(c *ctx) {
		for _, bv := range []*big.Int{bi(0), bi(-1), new(big.Int).Neg(one36), new(big.Int).Set(one36)} {
			for _, x := range []*big.Int{bi(1), new(big.Int).Set(one36), bmul(bi(2), one36), maxV1024} {
				f, _ := c.checkLog("CustomBaseLog", x, bv)
				c.report(f)
			}
		}
	})

	// ---------------- Pow, PowApprox
	two18 := bmul(bi(2), one18)
	for _, fn := range []string{"Pow", "PowApprox"} {
		fn := fn
		add(fn+" base<1", func(c *ctx) { powItem(c, cf, fn, true) })
		add(fn+" base>=1", func(c *ctx) { powItem(c, cf, fn, false) })
		add(fn+" outside domain", func(c *ctx) {
			outB := []*big.Int{bi(0), bi(-1), new(big.Int).Neg(one18), badd(two18, bi(1)), bmul(bi(3), one18), bmul(bpow2(255), one18)}
			if fn == "Pow" {
				outB = append(outB, two18)
			}
			for _, bv := range outB {
				for _, e := range []*big.Int{bi(0), bstr("0.25", 18), bstr("0.5", 18), new(big.Int).Set(one18)} {
					if fn == "PowApprox" && e.Cmp(one18) >= 0 {
						continue
					}
					c.report(c.checkPow(fn, bv, e))
				}
			}
			outE := []*big.Int{bi(-1), bstr("-0.5", 18), bstr("-1", 18), bstr("-1.5", 18)}
			if fn == "PowApprox" {
				outE = []*big.Int{bstr("-0.5", 18), new(big.Int).Set(one18), bstr("1.5", 18)}
			}
			for _, e := range outE {
				for _, b := range []string{"0.5", "0.984375", "1.25", "1.5"} {
					c.report(c.checkPow(fn, bstr(b, 18), e))
				}
			}
		})
	}

	// ---------------- square roots
	for _, fn := range []string{"MonotonicSqrt", "MonotonicSqrtBigDec"} {
		fn := fn
		S, maxV, maxBits := one18, maxDecV, 316
		if fn == "MonotonicSqrtBigDec" {
			S, maxV, maxBits = one36, maxV1144, 1144
		}
		add(fn+" structured lattice", func(c *ctx) {
			var ms []*big.Int
			for m := 0; m <= cf.sqrtSmallM; m++ {
				ms = append(ms, bi(int64(m)))
			}
			for a := 1; a*2 <= maxBits; a++ {
				p := bpow2(a)
				ms = append(ms, p, bsub(p, bi(1)), badd(p, bi(1)))
			}
			for a := 1; ; a++ {
				p := pow10i(a)
				if bmul(p, p).Cmp(maxV) > 0 {
					break
				}
				ms = append(ms, p, bsub(p, bi(1)), badd(p, bi(1)))
			}
			top := new(big.Int).Sqrt(maxV)
			for d := int64(0); d < 4; d++ {
				ms = append(ms, bsub(top, bi(d)))
			}
			var vs []*big.Int
			for _, m := range ms {
				sq := bmul(m, m)
				for _, d := range []int64{-1, 0, 1} {
					v := badd(sq, bi(d))
					if v.Sign() >= 0 && v.Cmp(maxV) <= 0 {
						vs = append(vs, v)
					}
				}
			}
			for e := 0; ; e++ {
				p := pow10i(e)
				if p.Cmp(maxV) > 0 {
					break
				}
				vs = append(vs, p, bsub(p, bi(1)), badd(p, bi(1)))
			}
			vs = append(vs, bi(0), bi(1), bi(2), maxV, bsub(maxV, bi(1)))
			if fn == "MonotonicSqrtBigDec" {
				vs = append(vs, maxV1024, bsub(maxV1024, bi(1)), badd(maxV1024, bi(1)))
			}
			vs = sortUniq(vs)
			var pv, pr *big.Int
			for _, v := range vs {
				if v.Cmp(maxV) > 0 {
					continue
				}
				f, r := c.checkSqrt(fn, v)
				c.report(f)
				if pv != nil {
					c.report(c.checkSqrtMono(fn, pv, pr, v, r))
				}
				pv, pr = v, r
				if v.Sign() == 0 || v.Cmp(bi(1)) == 0 || v.Cmp(maxV) == 0 {
					c.vac("sqrt_domain_edge_inputs")
				}
			}
			for _, v := range []*big.Int{bi(-1), new(big.Int).Neg(S), new(big.Int).Neg(maxV)} {
				f, _ := c.checkSqrt(fn, v)
				c.report(f)
			}
		})
		// dense runs of consecutive ulps
		starts := []*big.Int{bi(0), bsub(S, bi(int64(cf.sqrtRun/2))), bsub(bmul(S, S), bi(int64(cf.sqrtRun/2))), bsub(maxV, bi(int64(cf.sqrtRun-1)))}
		const chunk = 31250
		for si, st := range starts {
			st := st
			for off := 0; off < cf.sqrtRun; off += chunk {
				off := off
				add(fmt.Sprintf("%s dense run %d +%d", fn, si, off), func(c *ctx) {
					var pv, pr *big.Int
					first := off
					if off > 0 {
						first = off - 1 // predecessor, evaluated for the monotonicity link only
					}
					for i := first; i < off+chunk && i < cf.sqrtRun; i++ {
						if c.expired() {
							return
						}
						v := badd(st, bi(int64(i)))
						s0, t0, tr0 := c.r.States, c.r.Transitions, c.r.Traces
						f, r := c.checkSqrt(fn, v)
						if i < off { // do not count (or report) the overlap point twice
							c.r.States, c.r.Transitions, c.r.Traces = s0, t0, tr0
						} else {
							c.report(f)
						}
						if pv != nil {
							c.report(c.checkSqrtMono(fn, pv, pr, v, r))
						}
						pv, pr = v, r
					}
				})
			}
		}
	}

	// ---------------- SigFigRound
	pats := sigFigPatterns(thorough)
	const patChunk = 64
	for lo := 0; lo < len(pats); lo += patChunk {
		lo := lo
		add(fmt.Sprintf("SigFigRound patterns %d..", lo), func(c *ctx) {
			for i := lo; i < lo+patChunk && i < len(pats); i++ {
				P := pats[i]
				pv, _ := new(big.Int).SetString(P, 10)
				for nd := len(P); nd <= 60; nd++ {
					if c.expired() {
						return
					}
					v := bmul(pv, pow10i(nd-len(P)))
					for s := 1; s <= 18; s++ {
						c.report(c.checkSigFig(v, s))
					}
				}
			}
		})
	}
	add("SigFigRound edges", func(c *ctx) {
		vs := []*big.Int{bi(0), bi(-1), new(big.Int).Neg(one18), maxDecV}
		for e := 58; e <= 77; e++ {
			vs = append(vs, pow10i(e+18), bmul(bi(15), pow10i(e+17)))
		}
		for _, v := range vs {
			if v.Cmp(maxDecV) > 0 {
				continue
			}
			for s := 1; s <= 18; s++ {
				c.report(c.checkSigFig(v, s))
			}
		}
	})

	// ---------------- binary searches
	for _, kind := range []string{"BinarySearch", "BinarySearchBigDec"} {
		for _, fname := range []string{"id", "lin", "cube", "step", "err"} {
			if kind == "BinarySearchBigDec" && fname == "err" {
				continue
			}
			kind, fname := kind, fname
			add(kind+" f="+fname, func(c *ctx) { bsItem(c, kind, fname) })
		}
	}
	return its
}

func bsItem(c *ctx, kind, fname string) {
	type bd struct{ lo, hi *big.Int }
	unit := bi(1)
	if kind == "BinarySearchBigDec" {
		unit = one36
	}
	u := func(x int64) *big.Int { return bmul(bi(x), unit) }
	bounds := []bd{{u(0), u(1000)}, {u(0), bmul(bpow2(40), unit)}, {u(5), u(5)}, {u(1), u(2)}, {u(0), bmul(pow10i(18), unit)}}
	if kind == "BinarySearchBigDec" {
		bounds = append(bounds, bd{bi(0), bi(1000)}) // [0, 1000 ulp]
	}
	adds := []*big.Int{nil, bi(0), one18, bmul(bi(1000), one18)}
	mults := []*big.Int{nil, pow10i(6), pow10i(15)}
	iters := []int{1, 5, 50, 300}
	eval := func(x *big.Int) *big.Int {
		if kind == "BinarySearch" {
			y, err := intFn(fname, x)
			if err != nil {
				return bi(500)
			}
			return y
		}
		return bigDecFn(fname)(bigDec(x)).BigInt()
	}
	for _, b := range bounds {
		if b.lo.Cmp(b.hi) == 0 {
			c.vac("bsearch_degenerate_interval")
		}
		mid := bquo(badd(b.lo, b.hi), bi(3))
		ts := []*big.Int{eval(b.lo), eval(b.hi), eval(mid), badd(eval(mid), bi(1)), bsub(eval(mid), bi(1)),
			badd(eval(b.hi), u(1000000)), bi(0), u(7), u(1000), u(123456789)}
		if kind == "BinarySearchBigDec" {
			ts = append(ts, bstr("2.5", 36), bstr("1000000.000001", 36))
		}
		ts = sortUniq(ts)
		for _, t := range ts {
			for _, a := range adds {
				for _, m := range mults {
					for dir := 0; dir <= 2; dir++ {
						for _, it := range iters {
							if c.expired() {
								return
							}
							c.report(c.checkBS(bsParams{kind: kind, f: fname, lo: b.lo, hi: b.hi, target: t, add: a, mult: m, dir: dir, iter: it}))
						}
					}
				}
			}
		}
	}
}

// sigFigPatterns: leading-digit strings; every pattern is later placed at every decimal position.
func sigFigPatterns(thorough bool) []string {
	seen := map[string]bool{}
	var out []string
	addp := func(p string) {
		p = strings.TrimLeft(p, "0")
		if p == "" || len(p) > 40 || seen[p] {
			return
		}
		seen[p] = true
		out = append(out, p)
	}
	suffixes := []string{"", "5", "49", "499999", "51", "500001", "4", "6", "50", "05", "95", "4999999999999999999", "5000000000000000001"}
	for s := 1; s <= 18; s++ {
		prefixes := []string{
			"1" + strings.Repeat("0", s-1),
			"12345678901234567890"[:s],
			strings.Repeat("9", s),
			"2" + strings.Repeat("5", s-1),
			strings.Repeat("4", s),
		}
		if s >= 2 {
			prefixes = append(prefixes, "1"+strings.Repeat("0", s-2)+"1", strings.Repeat("9", s-1)+"8", strings.Repeat("7", s-1)+"2")
		}
		for _, p := range prefixes {
			for _, sf := range suffixes {
				addp(p + sf)
			}
		}
	}
	if thorough {
		for n := 1; n < 1000; n++ {
			for _, sf := range []string{"", "5", "49", "51", "4999999", "5000001"} {
				addp(fmt.Sprint(n) + sf)
			}
		}
	}
	return out
}

// replay re-executes exactly one recorded case.
func replay(c *ctx, cs Case) {
	switch cs.Fn {
	case "Exp2":
		c.report(c.checkExp2(parseDec(cs.In[0], 36)))
	case "LogBase2", "Ln", "TickLog":
		f, _ := c.checkLog(cs.Fn, parseDec(cs.In[0], 36), nil)
		c.report(f)
	case "CustomBaseLog":
		f, _ := c.checkLog(cs.Fn, parseDec(cs.In[0], 36), parseDec(cs.In[1], 36))
		c.report(f)
	case "Pow", "PowApprox":
		c.report(c.checkPow(cs.Fn, parseDec(cs.In[0], 18), parseDec(cs.In[1], 18)))
	case "MonotonicSqrt", "MonotonicSqrtBigDec":
		prec := 18
		if cs.Fn == "MonotonicSqrtBigDec" {
			prec = 36
		}
		f, _ := c.checkSqrt(cs.Fn, parseDec(cs.In[0], prec))
		c.report(f)
	case "MonotonicSqrt.mono", "MonotonicSqrtBigDec.mono":
		fn := strings.TrimSuffix(cs.Fn, ".mono")
		prec := 18
		if fn == "MonotonicSqrtBigDec" {
			prec = 36
		}
		a, b := parseDec(cs.In[0], prec), parseDec(cs.In[1], prec)
		fa, ra := c.checkSqrt(fn, a)
		fb, rb := c.checkSqrt(fn, b)
		c.report(fa)
		c.report(fb)
		c.report(c.checkSqrtMono(fn, a, ra, b, rb))
	case "SigFigRound":
		var s int
		fmt.Sscan(cs.P["sigfigs"], &s)
		c.report(c.checkSigFig(parseDec(cs.In[0], 18), s))
	case "BinarySearch", "BinarySearchBigDec":
		c.report(c.checkBS(bsFromCase(cs)))
	default:
		fmt.Fprintln(os.Stderr, "num13: unknown function in replay:", cs.Fn)
		os.Exit(2)
	}
}
