package main

// Oracles of C13, one per function family.  Every checker takes the input as scaled integers
// (BigDec: ×10^36, Dec: ×10^18), executes the real code on a fresh copy, compares, and returns a
// *failure (nil = the oracle holds at this point).

import (
	"fmt"
	"math/big"

	om "github.com/osmosis-labs/osmosis/osmomath"
)

var (
	ulp36       = bi(1)
	one36       = pow10i(36)
	one18       = pow10i(18)
	exp2MaxV    = bmul(bi(512), pow10i(36))            // statement: domain [0, 512]
	maxV1024    = bsub(bpow2(1024), bi(1))             // largest BigDec accepted by the string constructor
	maxV1144    = bsub(bpow2(1144), bi(1))             // largest BigDec arithmetic may produce
	maxDecV     = bsub(bmul(bpow2(256), one18), bi(1)) // largest Dec
	powPrecV    = pow10i(10)                           // documented powPrecision 0.00000001, as ×10^18
	tol1e32     *big.Float                             // 10^-32
	tickLogBase = bstr("1.0001", 36)
)

func initTol() {
	tol1e32 = fquo(fOne, fbi(pow10i(32)))
}

// ---------------------------------------------------------------------------------------------
// Exp2: relative error ≤ 10^-18 on [0, 512]; panics outside.

func (c *ctx) checkExp2(v *big.Int) *failure {
	cs := Case{Fn: "Exp2", In: []string{fmtDec(v, 36)}}
	inDomain := v.Sign() >= 0 && v.Cmp(exp2MaxV) <= 0
	var res om.BigDec
	p, msg := try(func() { res = om.Exp2(bigDec(v)) })
	c.r.States++
	c.r.Transitions++
	if !inDomain {
		if p {
			c.vac("exp2_panics_outside_domain")
			return nil
		}
		return c.fail("exp2_outside_domain_no_panic", cs, "Exp2 returned "+res.String()+" for an exponent outside [0,512]")
	}
	if v.Sign() == 0 || v.Cmp(exp2MaxV) == 0 || v.Cmp(ulp36) == 0 || bsub(exp2MaxV, v).Cmp(ulp36) == 0 {
		c.vac("exp2_domain_edge_inputs")
	}
	if p {
		return c.fail("exp2_in_domain_panic", cs, "Exp2 panicked inside [0,512]: "+msg)
	}
	ref := refExp2(scaled(v, 36))
	got := fbi(res.BigInt())
	want := fmul(ref, f10p36)
	err := fabs(fsub(got, want))
	bound := fmul(ref, f10p18) // 10^-18 · ref, in units of 10^-36
	c.r.Traces++
	c.ratio("Exp2", err, bound)
	if err.Cmp(bound) > 0 {
		return c.fail("exp2_rel_err_gt_1e-18", cs, fmt.Sprintf("Exp2=%s reference=%s relative error=%s > 1e-18",
			res.String(), ref.Text('f', 40), fquo(err, want).Text('e', 6)))
	}
	return nil
}

// ---------------------------------------------------------------------------------------------
// Logarithms: LogBase2 absolute 10^-32; Ln, TickLog, CustomBaseLog(b): 10^-32/|log2 b| (+1 ulp of
// the final division); x ≤ 0, base ≤ 0, base = 1 ⇒ panic.

var scaleCache = map[string]*big.Float{}

// logScale returns 1/log2(base) for the derived logarithms.
func logScale(fn string, bv *big.Int) *big.Float {
	switch fn {
	case "LogBase2":
		return fOne
	case "Ln":
		return fLn2
	case "TickLog":
		bv = tickLogBase
	}
	k := bv.String()
	if s, ok := scaleCache[k]; ok {
		return s
	}
	s := fquo(fOne, refLog2(scaled(bv, 36)))
	scaleCache[k] = s
	return s
}

// checkLog also returns |true logarithm| (nil outside the domain): the derived-logarithm items
// describe their failing region by it.
func (c *ctx) checkLog(fn string, xv, bv *big.Int) (*failure, *big.Float) {
	cs := Case{Fn: fn, In: []string{fmtDec(xv, 36)}}
	inDomain := xv.Sign() > 0
	if fn == "CustomBaseLog" {
		cs.In = append(cs.In, fmtDec(bv, 36))
		inDomain = inDomain && bv.Sign() > 0 && bv.Cmp(one36) != 0
	}
	var res om.BigDec
	p, msg := try(func() {
		x := bigDec(xv)
		switch fn {
		case "LogBase2":
			res = x.LogBase2()
		case "Ln":
			res = x.Ln()
		case "TickLog":
			res = x.TickLog()
		case "CustomBaseLog":
			res = x.CustomBaseLog(bigDec(bv))
		default:
			panic("unknown log fn " + fn)
		}
	})
	c.r.States++
	c.r.Transitions++
	if !inDomain {
		if p {
			c.vac("log_panics_outside_domain")
			return nil, nil
		}
		return c.fail("log_outside_domain_no_panic", cs, fn+" returned "+res.String()+" outside its domain"), nil
	}
	if xv.Cmp(ulp36) == 0 || xv.Cmp(maxV1024) == 0 || xv.Cmp(maxV1144) == 0 || new(big.Int).Abs(bsub(xv, one36)).Cmp(ulp36) <= 0 {
		c.vac("log_domain_edge_inputs")
	}
	scale := logScale(fn, bv)
	ref := fmul(refLog2(scaled(xv, 36)), scale)
	absT := fabs(ref)
	if p {
		return c.fail("log_in_domain_panic", cs, fn+" panicked inside its domain: "+msg), absT
	}
	got := fbi(res.BigInt())
	want := fmul(ref, f10p36)
	err := fabs(fsub(got, want))
	bound := fmul(fmul(tol1e32, fabs(scale)), f10p36)
	if fn != "LogBase2" {
		bound.Add(bound, fOne) // one ulp of the final division
	}
	c.r.Traces++
	key := fn
	if fn == "CustomBaseLog" {
		key = fn + "_base_" + fmtDec(bv, 36)
	}
	c.ratio(key, err, bound)
	if err.Cmp(bound) > 0 {
		return c.fail("log_abs_err_gt_1e-32_scaled", cs, fmt.Sprintf("%s=%s reference=%s |error|=%s > allowed %s (1e-32/|log2 base|)",
			fn, res.String(), ref.Text('f', 40), fquo(err, f10p36).Text('e', 6), fquo(bound, f10p36).Text('e', 6))), absT
	}
	return nil, absT
}

// ---------------------------------------------------------------------------------------------
// Pow / PowApprox: |error| ≤ powPrecision (documented 10^-8) on the fractional power, i.e.
// powPrecision·max(1, base^⌊exp⌋) on the whole; panics outside the domain.  Outside the documented
// domain the functions must panic or else still return a value within that bound (the statement
// forbids "a wrong number", not a right one).

func powInDomain(fn string, bv, ev *big.Int) bool {
	two18 := bmul(bi(2), one18)
	if fn == "Pow" {
		return bv.Sign() > 0 && bv.Cmp(two18) < 0 && ev.Sign() >= 0
	}
	return bv.Sign() > 0 && bv.Cmp(two18) <= 0 && ev.Sign() >= 0 && ev.Cmp(one18) < 0
}

func (c *ctx) checkPow(fn string, bv, ev *big.Int) *failure {
	cs := Case{Fn: fn, In: []string{fmtDec(bv, 18), fmtDec(ev, 18)}}
	two18 := bmul(bi(2), one18)
	inDomain := powInDomain(fn, bv, ev)
	var res om.Dec
	p, msg := try(func() {
		if fn == "Pow" {
			res = om.Pow(dec(bv), dec(ev))
		} else {
			res = om.PowApprox(dec(bv), dec(ev), dec(powPrecV))
		}
	})
	c.r.States++
	c.r.Transitions++
	if inDomain {
		d1 := new(big.Int).Abs(bsub(bv, one18))
		if bv.Cmp(bi(2)) <= 0 || d1.Cmp(bi(1)) <= 0 || new(big.Int).Abs(bsub(bv, two18)).Cmp(bi(2)) <= 0 {
			c.vac("pow_domain_edge_inputs")
		}
	}
	if p {
		if inDomain {
			return c.fail("pow_in_domain_panic", cs, fn+" panicked inside its documented domain: "+msg)
		}
		c.vac("pow_panics_outside_domain")
		return nil
	}
	if bv.Sign() <= 0 {
		return c.fail("pow_outside_domain_wrong_number", cs, fn+" returned "+res.String()+" for a non-positive base")
	}
	b, e := scaled(bv, 18), scaled(ev, 18)
	ref := refPow(b, e)
	// base^trunc(exp)
	scale := fi(1)
	if ev.Sign() >= 0 {
		n := bquo(ev, one18).Int64()
		if n > 0 {
			scale = refPow(b, fi(n))
		}
	} else {
		scale = ref
	}
	if scale.Cmp(fOne) < 0 {
		scale = fOne
	}
	got := fbi(res.BigInt())
	want := fmul(ref, f10p18)
	err := fabs(fsub(got, want))
	bound := fmul(fbi(powPrecV), scale)
	c.r.Traces++
	if inDomain {
		c.ratio(fn, err, bound)
		if err.Cmp(bound) > 0 {
			return c.fail("pow_err_gt_powPrecision", cs, fmt.Sprintf("%s=%s reference=%s |error|=%s > allowed %s",
				fn, res.String(), ref.Text('f', 24), fquo(err, f10p18).Text('e', 6), fquo(bound, f10p18).Text('e', 6)))
		}
		return nil
	}
	if err.Cmp(bound) > 0 {
		return c.fail("pow_outside_domain_wrong_number", cs, fmt.Sprintf("%s returned %s without panicking outside its documented domain; true value %s",
			fn, res.String(), ref.Text('f', 24)))
	}
	c.vac("pow_outside_domain_right_number")
	return nil
}

// ---------------------------------------------------------------------------------------------
// Monotone square roots: exact integer test r² ≥ v·S > (r−1)² (S = 10^18 resp. 10^36);
// negative ⇒ error.  Returns the root (scaled) or nil.

func (c *ctx) checkSqrt(fn string, v *big.Int) (*failure, *big.Int) {
	prec, S := 18, one18
	if fn == "MonotonicSqrtBigDec" {
		prec, S = 36, one36
	}
	cs := Case{Fn: fn, In: []string{fmtDec(v, prec)}}
	var r *big.Int
	var err error
	p, msg := try(func() {
		if prec == 18 {
			var d om.Dec
			d, err = om.MonotonicSqrt(dec(v))
			if err == nil {
				r = d.BigInt()
			}
		} else {
			var d om.BigDec
			d, err = om.MonotonicSqrtBigDec(bigDec(v))
			if err == nil {
				r = d.BigInt()
			}
		}
	})
	c.r.States++
	c.r.Transitions++
	if p {
		return c.fail("sqrt_panic", cs, fn+" panicked: "+msg), nil
	}
	// the sibling entry points: the Must form returns the same root and panics exactly when the plain form errors;
	// the Mut form returns the same root (it may clobber its argument); the plain form leaves its argument untouched
	{
		var rMust, rMut, argAfter *big.Int
		var errMut error
		pMust, _ := try(func() {
			if prec == 18 {
				rMust = om.MustMonotonicSqrt(dec(v)).BigInt()
			} else {
				rMust = om.MustMonotonicSqrtBigDec(bigDec(v)).BigInt()
			}
		})
		pMut, mMut := try(func() {
			if prec == 18 {
				var d om.Dec
				if d, errMut = om.MonotonicSqrtMut(dec(v)); errMut == nil {
					rMut = d.BigInt()
				}
				a := dec(v)
				_, _ = om.MonotonicSqrt(a)
				argAfter = a.BigInt()
			} else {
				var d om.BigDec
				if d, errMut = om.MonotonicSqrtBigDecMut(bigDec(v)); errMut == nil {
					rMut = d.BigInt()
				}
				a := bigDec(v)
				_, _ = om.MonotonicSqrtBigDec(a)
				argAfter = a.BigInt()
			}
		})
		c.r.Transitions += 3
		switch {
		case pMust != (err != nil):
			return c.fail("sqrt_must_form_differs", cs, fmt.Sprintf("Must%s panicked=%v but %s returned err=%v", fn, pMust, fn, err)), nil
		case !pMust && rMust.Cmp(r) != 0:
			return c.fail("sqrt_must_form_differs", cs, fmt.Sprintf("Must%s=%s, %s=%s", fn, fmtDec(rMust, prec), fn, fmtDec(r, prec))), nil
		case pMut:
			return c.fail("sqrt_mut_form_differs", cs, fn+"Mut panicked: "+mMut), nil
		case (errMut != nil) != (err != nil) || (err == nil && rMut.Cmp(r) != 0):
			return c.fail("sqrt_mut_form_differs", cs, fmt.Sprintf("%sMut returned (%v, %v), %s returned (%v, %v)", fn, rMut, errMut, fn, r, err)), nil
		case argAfter.Cmp(v) != 0:
			return c.fail("sqrt_argument_mutated", cs, fmt.Sprintf("%s changed its argument to %s", fn, fmtDec(argAfter, prec))), nil
		}
	}
	if v.Sign() < 0 {
		if err != nil {
			c.vac("sqrt_negative_errors")
			return nil, nil
		}
		return c.fail("sqrt_negative_no_error", cs, fn+" returned "+fmtDec(r, prec)+" for a negative input"), nil
	}
	if err != nil {
		return c.fail("sqrt_in_domain_error", cs, fn+" returned an error for a non-negative input: "+err.Error()), nil
	}
	N := bmul(v, S)
	r2 := bmul(r, r)
	ok := r.Sign() >= 0 && r2.Cmp(N) >= 0
	if ok && r.Sign() > 0 {
		rm := bsub(r, bi(1))
		ok = bmul(rm, rm).Cmp(N) < 0
	}
	c.r.Traces++
	if r2.Cmp(N) == 0 {
		c.vac("sqrt_perfect_squares")
	} else if r.Sign() > 0 {
		// neighbours of a perfect square: (v−1)·S = (r−1)² resp. (v+1)·S = r²
		rm := bsub(r, bi(1))
		if bmul(rm, rm).Cmp(bsub(N, S)) == 0 {
			c.vac("sqrt_square_plus_1ulp")
		}
		if r2.Cmp(badd(N, S)) == 0 {
			c.vac("sqrt_square_minus_1ulp")
		}
	}
	if !ok {
		return c.fail("sqrt_not_least_upper_root", cs, fmt.Sprintf("%s=%s: not the least representable r with r² ≥ input (r²−input·S=%s)",
			fn, fmtDec(r, prec), bsub(r2, N).String())), r
	}
	return nil, r
}

func (c *ctx) checkSqrtMono(fn string, vPrev, rPrev, v, r *big.Int) *failure {
	if rPrev == nil || r == nil || vPrev.Sign() < 0 {
		return nil
	}
	c.r.Traces++
	if r.Cmp(rPrev) < 0 {
		prec := 18
		if fn == "MonotonicSqrtBigDec" {
			prec = 36
		}
		cs := Case{Fn: fn + ".mono", In: []string{fmtDec(vPrev, prec), fmtDec(v, prec)}}
		return c.fail("sqrt_not_monotone", cs, fmt.Sprintf("sqrt(%s)=%s > sqrt(%s)=%s", cs.In[0], fmtDec(rPrev, prec), cs.In[1], fmtDec(r, prec)))
	}
	return nil
}

// ---------------------------------------------------------------------------------------------
// SigFigRound(d, 10^s): |r − d| ≤ ½·10^(⌊log10 d⌋+1−s).

func (c *ctx) checkSigFig(v *big.Int, s int) *failure {
	cs := Case{Fn: "SigFigRound", In: []string{fmtDec(v, 18)}, P: map[string]string{"sigfigs": fmt.Sprint(s)}}
	tenS := pow10i(s)
	var res om.Dec
	// the intermediate d·10^s must be representable; beyond that a panic is a loud refusal
	representable := v.Sign() >= 0 && bmul(v, tenS).Cmp(maxDecV) <= 0
	p, msg := try(func() { res = om.SigFigRound(dec(v), om.NewIntFromBigInt(tenS)) })
	c.r.States++
	c.r.Transitions++
	if p {
		if representable {
			return c.fail("sigfig_in_domain_panic", cs, "SigFigRound panicked: "+msg)
		}
		c.vac("sigfig_loud_refusals")
		return nil
	}
	r := res.BigInt()
	c.r.Traces++
	if v.Sign() == 0 {
		if r.Sign() != 0 {
			return c.fail("sigfig_moves_more_than_half_unit", cs, "SigFigRound(0) = "+res.String())
		}
		c.vac("sigfig_domain_edge_inputs")
		return nil
	}
	if v.Sign() < 0 {
		// not in any documented domain: a returned value must still obey the bound
		v = new(big.Int).Neg(v)
		r = new(big.Int).Neg(r)
	}
	nd := len(v.String()) // number of digits of the scaled integer; ⌊log10 d⌋ = nd−19
	pUnit := nd - s       // unit of the last kept digit = 10^pUnit ulps (ulp = 10^-18)
	diff := new(big.Int).Abs(bsub(r, v))
	// 2·diff ≤ 10^pUnit   (pUnit < 0: the unit is below one ulp, only diff = 0 qualifies)
	var ok bool
	if pUnit < 0 {
		ok = diff.Sign() == 0
	} else {
		ok = bmul(bi(2), diff).Cmp(pow10i(pUnit)) <= 0
	}
	// tie at the position where the implementation rounds (s decimals for d ≥ 0.1, s significant
	// figures below): the dropped digits are exactly 5000…
	tU := nd - s
	if nd > 18 {
		tU = 18 - s
	}
	if tU >= 1 {
		rem := new(big.Int).Rem(v, pow10i(tU))
		if bmul(bi(2), rem).Cmp(pow10i(tU)) == 0 {
			c.vac("sigfig_ties")
		}
	}
	if nd == 1 || nd >= 60 {
		c.vac("sigfig_domain_edge_inputs")
	}
	if !ok {
		return c.fail("sigfig_moves_more_than_half_unit", cs, fmt.Sprintf("SigFigRound(%s, 10^%d)=%s moves the value by %s ulps; half a unit of the last kept digit is %s ulps",
			cs.In[0], s, res.String(), diff.String(), halfUnitStr(pUnit)))
	}
	return nil
}

func halfUnitStr(p int) string {
	if p < 1 {
		return "<1"
	}
	return "5e" + fmt.Sprint(p-1)
}
