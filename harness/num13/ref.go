package main

// High-precision reference arithmetic for C13, written from scratch on math/big.
//
// Everything is computed in big.Float with refPrec bits of mantissa (768 ≥ the 600 the design asks
// for).  Only +, −, ×, ÷, SetInt, MantExp/SetMantExp and comparisons of math/big are trusted; exp,
// ln, log2 and pow are implemented here by argument reduction + power series and are cross-validated
// against each other by identities and against an independent second algorithm (Newton on exp for
// the logarithm, a Machin-like formula for ln 2) in selfTest, which every process runs at start-up.

import (
	"fmt"
	"math"
	"math/big"
)

const refPrec = 768

var (
	fOne, fTwo, fLn2, fInvLn2 *big.Float
	invFact                   []*big.Float // 1/n!
	invOdd                    []*big.Float // 1/(2k+1)
	lnTab                     map[int]*big.Float
	f10p18, f10p36            *big.Float
	i10p18, i10p36            *big.Int
)

const lnTabDen = 128 // table of ln(1+j/128), j ∈ −32..64

func nf() *big.Float                  { return new(big.Float).SetPrec(refPrec) }
func fi(i int64) *big.Float           { return nf().SetInt64(i) }
func fbi(i *big.Int) *big.Float       { return nf().SetInt(i) }
func fmul(a, b *big.Float) *big.Float { return nf().Mul(a, b) }
func fquo(a, b *big.Float) *big.Float { return nf().Quo(a, b) }
func fadd(a, b *big.Float) *big.Float { return nf().Add(a, b) }
func fsub(a, b *big.Float) *big.Float { return nf().Sub(a, b) }
func fabs(a *big.Float) *big.Float    { return nf().Abs(a) }

func pow10i(n int) *big.Int {
	return new(big.Int).Exp(big.NewInt(10), big.NewInt(int64(n)), nil)
}

// scaled converts the integer v representing v/10^dec into a big.Float (one rounded division).
func scaled(v *big.Int, dec int) *big.Float {
	return fquo(fbi(v), fbi(pow10i(dec)))
}

func initRef() {
	fOne, fTwo = fi(1), fi(2)
	i10p18, i10p36 = pow10i(18), pow10i(36)
	f10p18, f10p36 = fbi(i10p18), fbi(i10p36)
	invFact = make([]*big.Float, 80)
	invFact[0] = fi(1)
	fact := fi(1)
	for n := 1; n < len(invFact); n++ {
		fact = fmul(fact, fi(int64(n)))
		invFact[n] = fquo(fOne, fact)
	}
	invOdd = make([]*big.Float, 700)
	for k := range invOdd {
		invOdd[k] = fquo(fOne, fi(int64(2*k+1)))
	}
	// ln 2 = 2·atanh(1/3)
	fLn2 = fmul(fTwo, atanhSeries(fquo(fOne, fi(3))))
	fInvLn2 = fquo(fOne, fLn2)
	lnTab = map[int]*big.Float{}
	for j := -32; j <= 64; j++ {
		// t = 1 + j/128 = (128+j)/128; ln t = 2·atanh((t−1)/(t+1)) = 2·atanh(j/(256+j))
		z := fquo(fi(int64(j)), fi(int64(2*lnTabDen+j)))
		lnTab[j] = fmul(fTwo, atanhSeries(z))
	}
}

// atanhSeries: Σ z^(2k+1)/(2k+1); |z| ≤ 1/3 required (callers guarantee it).
func atanhSeries(z *big.Float) *big.Float {
	if z.Sign() == 0 {
		return nf()
	}
	z2 := fmul(z, z)
	term := nf().Set(z)
	sum := nf().Set(z)
	for k := 1; ; k++ {
		term = fmul(term, z2)
		if k >= len(invOdd) {
			panic("atanhSeries: too many terms")
		}
		t := fmul(term, invOdd[k])
		sum.Add(sum, t)
		if t.Sign() == 0 || t.MantExp(nil) < sum.MantExp(nil)-refPrec-8 {
			break
		}
	}
	return sum
}

// refLn: natural logarithm of x > 0, relative accuracy ≈ 2^-(refPrec−16) also for x next to 1.
func refLn(x *big.Float) *big.Float {
	if x.Sign() <= 0 {
		panic("refLn: x <= 0")
	}
	m := nf()
	e := x.MantExp(m) // x = m·2^e, m ∈ [0.5,1)
	// bring m into [0.75, 1.5)
	if m.Cmp(big.NewFloat(0.75)) < 0 {
		m.SetMantExp(m, 1)
		e--
	}
	// nearest table point t = 1 + j/128
	d := fsub(m, fOne)
	d.SetMantExp(d, 7) // (m−1)·128
	df, _ := d.Float64()
	j := int(math.Floor(df + 0.5))
	if j < -32 {
		j = -32
	}
	if j > 64 {
		j = 64
	}
	var u *big.Float
	if j == 0 {
		u = m
	} else {
		t := fquo(fi(int64(lnTabDen+j)), fi(lnTabDen))
		u = fquo(m, t)
	}
	z := fquo(fsub(u, fOne), fadd(u, fOne))
	r := fmul(fTwo, atanhSeries(z))
	r.Add(r, lnTab[j])
	if e != 0 {
		r.Add(r, fmul(fi(int64(e)), fLn2))
	}
	return r
}

func refLog2(x *big.Float) *big.Float { return fmul(refLn(x), fInvLn2) }

// refExp: e^y for |y| up to a few thousand.
func refExp(y *big.Float) *big.Float {
	if y.Sign() == 0 {
		return fi(1)
	}
	// n = round(y/ln2), r = y − n·ln2
	q := fmul(y, fInvLn2)
	qf, _ := q.Float64()
	n := int64(math.Floor(qf + 0.5))
	r := fsub(y, fmul(fi(n), fLn2))
	const K = 24
	r.SetMantExp(r, -K)
	sum := fi(1)
	pw := fi(1)
	for i := 1; i < len(invFact); i++ {
		pw = fmul(pw, r)
		t := fmul(pw, invFact[i])
		sum.Add(sum, t)
		if t.Sign() == 0 || t.MantExp(nil) < -refPrec-8 {
			break
		}
	}
	for i := 0; i < K; i++ {
		sum = fmul(sum, sum)
	}
	return sum.SetMantExp(sum, int(n))
}

// refExp2: 2^x, integer part handled exactly by the exponent.
func refExp2(x *big.Float) *big.Float {
	xi, _ := x.Int(nil) // truncation towards zero
	n := xi.Int64()
	fr := fsub(x, fbi(xi))
	r := refExp(fmul(fr, fLn2))
	return r.SetMantExp(r, int(n))
}

// refPow: b^e for b > 0.
func refPow(b, e *big.Float) *big.Float {
	if e.Sign() == 0 {
		return fi(1)
	}
	return refExp(fmul(e, refLn(b)))
}

// refLnNewton: independent logarithm — Halley iteration y ← y + 2(x−e^y)/(x+e^y) on refExp only.
func refLnNewton(x *big.Float) *big.Float {
	m := nf()
	e := x.MantExp(m)
	mf, _ := m.Float64()
	y := nf().SetFloat64(math.Log(mf))
	y.Add(y, fmul(fi(int64(e)), fLn2))
	for it := 0; it < 6; it++ {
		ey := refExp(y)
		d := fquo(fsub(x, ey), fadd(x, ey))
		y = fadd(y, fmul(fTwo, d))
	}
	return y
}

func closeRel(a, b *big.Float, bits int) bool {
	d := fabs(fsub(a, b))
	if d.Sign() == 0 {
		return true
	}
	m := fabs(a)
	if fabs(b).Cmp(m) > 0 {
		m = fabs(b)
	}
	if m.Sign() == 0 {
		return false
	}
	return d.MantExp(nil) <= m.MantExp(nil)-bits
}

func closeAbs(a, b *big.Float, bits int) bool {
	d := fabs(fsub(a, b))
	return d.Sign() == 0 || d.MantExp(nil) <= -bits
}

func fstr(s string) *big.Float {
	r, ok := new(big.Rat).SetString(s)
	if !ok {
		panic("bad literal " + s)
	}
	return fquo(fbi(r.Num()), fbi(r.Denom()))
}

// selfTest cross-validates the reference by identities, by a second algorithm and against literals
// taken from published tables (the same literals the repository's own tests quote). Returns a
// description of the first failure, or "".
func selfTest() string {
	const B = 700 // bits of agreement demanded (reference claims ≥ 600)
	// ln 2 by a Machin-like formula: 18·atanh(1/26) − 2·atanh(1/4801) + 8·atanh(1/8749)
	l2 := fmul(fi(18), atanhSeries(fquo(fOne, fi(26))))
	l2.Sub(l2, fmul(fi(2), atanhSeries(fquo(fOne, fi(4801)))))
	l2.Add(l2, fmul(fi(8), atanhSeries(fquo(fOne, fi(8749)))))
	if !closeRel(l2, fLn2, B) {
		return "ln2: atanh(1/3) vs Machin-like disagree"
	}
	if !closeAbs(fLn2, fstr("0.693147180559945309417232121458176568075500134360255254120680009493393621969694715605863326996418687"), 320) {
		return "ln2 literal"
	}
	if !closeRel(refExp2(fi(1)), fTwo, B) || !closeRel(refExp2(fi(10)), fi(1024), B) {
		return "exp2(1), exp2(10)"
	}
	h := refExp2(fstr("0.5"))
	if !closeRel(fmul(h, h), fTwo, B) {
		return "exp2(0.5)^2"
	}
	if !closeAbs(h, fstr("1.41421356237309504880168872420969807856967187537694807317667973799073247846210703885038753432764157"), 320) {
		return "sqrt2 literal"
	}
	// literals quoted by osmomath's own tests (Wolfram Alpha, 37 digits)
	if !closeAbs(refExp2(fstr("0.3334567")), fstr("1.260028791934303989065848870753742298"), 118) {
		return "2^0.3334567 literal"
	}
	if !closeAbs(refExp2(fstr("0.00001")), fstr("1.000006931495828305653209089800561681"), 118) {
		return "2^0.00001 literal"
	}
	if !closeAbs(refLog2(refExp(fOne)), fstr("1.44269504088896340735992468100189213742664595415298593413544940693110921918118507988552662289350634449699"), 330) {
		return "log2(e) literal"
	}
	xs := []string{"0.000000000000000000000000000000000001", "0.000001", "0.1", "0.3", "0.5", "0.74", "0.75", "0.76",
		"0.999999999999999999999999999999999999", "1", "1.000000000000000000000000000000000001", "1.0001", "1.25", "1.49", "1.5",
		"1.51", "1.9999", "2", "3", "7", "10", "1000000", "12345678901234567890.123456789", "179769313486231570000000000000000000000000000000000000000000000000000000000000000000"}
	for _, s := range xs {
		x := fstr(s)
		ln := refLn(x)
		if s == "1" {
			if ln.Sign() != 0 {
				return "ln 1 != 0"
			}
			continue
		}
		if !closeRel(refExp(ln), x, B) {
			return "exp(ln x) != x at " + s
		}
		// (Newton works to an absolute accuracy of ≈2^-750; next to 1, where ln x ≈ 10^-36, that
		// is 2^-630 relative — still above the 600 bits claimed)
		if nw := refLnNewton(x); !closeAbs(nw, ln, B) || !closeRel(nw, ln, 600) {
			return "ln: series vs Newton-on-exp disagree at " + s
		}
		// ln(x·3) = ln x + ln 3
		if !closeAbs(refLn(fmul(x, fi(3))), fadd(ln, refLn(fi(3))), B-16) {
			return "ln(3x) != ln x + ln 3 at " + s
		}
		// ln(1/x) = −ln x
		if !closeAbs(refLn(fquo(fOne, x)), nf().Neg(ln), B-16) {
			return "ln(1/x) != -ln x at " + s
		}
	}
	es := []string{"0", "0.000000000000000000000000000000000001", "0.0009765625", "0.25", "0.3334567", "0.5", "0.75",
		"0.999999999999999999999999999999999999", "1", "1.5", "63.84864288", "127.999999999999999999999999999999999999", "511.5", "512"}
	for _, s := range es {
		x := fstr(s)
		a := refExp2(x)
		// 2^x · 2^(600−x) = 2^600
		b := refExp2(fsub(fi(600), x))
		if !closeRel(fmul(a, b), nf().SetMantExp(fOne, 600), B) {
			return "2^x·2^(600-x) at " + s
		}
		if !closeAbs(refLog2(a), x, B-16) {
			return "log2(2^x) != x at " + s
		}
		// pow(2,x) by the generic routine
		if !closeRel(refPow(fTwo, x), a, B) {
			return "pow(2,x) != exp2(x) at " + s
		}
	}
	// pow: b^e · b^(1−e) = b ; b^(1/2) squared = b
	for _, bs := range []string{"0.000000000000000001", "0.015625", "0.5", "0.999", "1.5", "1.999999999999999999"} {
		b := fstr(bs)
		for _, e := range []string{"0.1", "0.333333333333333333", "0.5", "0.9"} {
			ex := fstr(e)
			if !closeRel(fmul(refPow(b, ex), refPow(b, fsub(fOne, ex))), b, B) {
				return "b^e·b^(1-e) != b at " + bs + "^" + e
			}
		}
	}
	// float64 sanity (guards against gross blunders such as a swapped argument)
	for _, v := range []float64{0.1, 0.7, 1.3, 5.5, 100.25} {
		x := nf().SetFloat64(v)
		g, _ := refExp2(x).Float64()
		if math.Abs(g-math.Exp2(v)) > 1e-12*math.Exp2(v) {
			return fmt.Sprintf("exp2 float sanity at %v", v)
		}
		l, _ := refLog2(x).Float64()
		if math.Abs(l-math.Log2(v)) > 1e-12 {
			return fmt.Sprintf("log2 float sanity at %v", v)
		}
	}
	return ""
}
