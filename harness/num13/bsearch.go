package main

// BinarySearch / BinarySearchBigDec: the returned input's image must meet the requested tolerance
// on the requested side (evaluated here exactly, from the documented meaning of ErrTolerance, not
// with ErrTolerance.Compare), or an error must be returned.

import (
	"errors"
	"fmt"
	"math/big"
	"os"
	"strconv"
	"strings"

	om "github.com/osmosis-labs/osmosis/osmomath"
)

type bsParams struct {
	kind, f        string
	lo, hi, target *big.Int // Int: plain integers; BigDec: ×10^36
	add, mult      *big.Int // ×10^18, nil = not set
	dir            int      // 0 unconstrained, 1 up, 2 down
	iter           int
}

func optStr(v *big.Int) string {
	if v == nil {
		return "nil"
	}
	return fmtDec(v, 18)
}

func (p bsParams) toCase() Case {
	prec := 0
	if p.kind == "BinarySearchBigDec" {
		prec = 36
	}
	return Case{Fn: p.kind, P: map[string]string{
		"f": p.f, "lo": fmtDec(p.lo, prec), "hi": fmtDec(p.hi, prec), "target": fmtDec(p.target, prec),
		"add": optStr(p.add), "mult": optStr(p.mult), "dir": strconv.Itoa(p.dir), "iter": strconv.Itoa(p.iter)}}
}

func bsFromCase(cs Case) bsParams {
	prec := 0
	if cs.Fn == "BinarySearchBigDec" {
		prec = 36
	}
	opt := func(s string) *big.Int {
		if s == "nil" {
			return nil
		}
		return parseDec(s, 18)
	}
	d, _ := strconv.Atoi(cs.P["dir"])
	it, _ := strconv.Atoi(cs.P["iter"])
	return bsParams{kind: cs.Fn, f: cs.P["f"], lo: parseDec(cs.P["lo"], prec), hi: parseDec(cs.P["hi"], prec),
		target: parseDec(cs.P["target"], prec), add: opt(cs.P["add"]), mult: opt(cs.P["mult"]), dir: d, iter: it}
}

var errAbove = errors.New("f undefined above 500")

// integer test functions (monotone increasing)
func intFn(name string, x *big.Int) (*big.Int, error) {
	switch name {
	case "id":
		return new(big.Int).Set(x), nil
	case "lin":
		return badd(bmul(bi(3), x), bi(1)), nil
	case "cube":
		return bmul(bmul(x, x), x), nil
	case "step":
		return bmul(bquo(x, bi(1000)), bi(1000)), nil
	case "err":
		if x.Cmp(bi(500)) > 0 {
			return nil, errAbove
		}
		return new(big.Int).Set(x), nil
	}
	panic("unknown f " + name)
}

func bigDecFn(name string) func(om.BigDec) om.BigDec {
	switch name {
	case "id":
		return func(x om.BigDec) om.BigDec { return x.Clone() }
	case "lin":
		return func(x om.BigDec) om.BigDec { return x.MulInt64(3).Add(om.OneBigDec()) }
	case "cube":
		return func(x om.BigDec) om.BigDec { return x.Mul(x).Mul(x) }
	case "step":
		return func(x om.BigDec) om.BigDec { return x.TruncateDec() }
	}
	panic("unknown f " + name)
}

// meets evaluates the documented ErrTolerance relation exactly.  t, a in units of `unit` per 1
// (unit = 1 for Int, 10^36 for BigDec); tolerances ×10^18.  slackUsed reports that the
// multiplicative comparison was decided only by the one-ulp allowance for the rounded quotient.
func meets(t, a, add, mult *big.Int, dir int, unit *big.Int, ulpScale *big.Int) (ok bool, slackUsed bool) {
	if dir == 1 && t.Cmp(a) > 0 {
		return false, false
	}
	if dir == 2 && t.Cmp(a) < 0 {
		return false, false
	}
	diff := new(big.Int).Abs(bsub(t, a))
	if add != nil {
		// diff/unit ≤ add/10^18
		if bmul(diff, one18).Cmp(bmul(add, unit)) > 0 {
			return false, false
		}
	}
	if mult != nil && mult.Sign() != 0 {
		m := new(big.Int).Abs(t)
		if aa := new(big.Int).Abs(a); aa.Cmp(m) < 0 {
			m = aa
		}
		if m.Sign() == 0 {
			return diff.Sign() == 0, false
		}
		// diff/m ≤ mult/10^18  ⇔ diff·10^18 ≤ mult·m ; allowance: one ulp of the rounded quotient
		lhs := bmul(diff, one18)
		if lhs.Cmp(bmul(mult, m)) > 0 {
			// (mult + ulp)·m with ulp = 10^18/ulpScale in ×10^18 units
			lhs2 := bmul(lhs, ulpScale)
			rhs2 := bmul(badd(bmul(mult, ulpScale), one18), m)
			if lhs2.Cmp(rhs2) > 0 {
				return false, false
			}
			return true, true
		}
	}
	return true, false
}

func tolOf(p bsParams) om.ErrTolerance {
	t := om.ErrTolerance{RoundingDir: om.RoundingDirection(p.dir)}
	if p.add != nil {
		t.AdditiveTolerance = dec(p.add)
	}
	if p.mult != nil {
		t.MultiplicativeTolerance = dec(p.mult)
	}
	return t
}

func (c *ctx) checkBS(p bsParams) *failure {
	cs := p.toCase()
	c.r.States++
	c.r.Transitions++
	if p.kind == "BinarySearch" {
		f := func(x om.Int) (om.Int, error) {
			y, err := intFn(p.f, x.BigInt())
			if err != nil {
				return om.Int{}, err
			}
			return om.NewIntFromBigInt(y), nil
		}
		var x om.Int
		var err error
		pn, msg := try(func() {
			x, err = om.BinarySearch(f, om.NewIntFromBigInt(p.lo), om.NewIntFromBigInt(p.hi), om.NewIntFromBigInt(p.target), tolOf(p), p.iter)
		})
		if pn {
			return c.fail("bsearch_panic", cs, "BinarySearch panicked: "+msg)
		}
		c.r.Traces++
		if err != nil {
			if strings.Contains(err.Error(), "maximum iterations") {
				c.vac("bsearch_nonconvergence_reported")
			} else {
				c.vac("bsearch_function_error_propagated")
			}
			return nil
		}
		c.vac("bsearch_converged")
		img, ferr := intFn(p.f, x.BigInt())
		if ferr != nil {
			return c.fail("bsearch_silent_wrong_input", cs, fmt.Sprintf("returned x=%s where f is undefined", x.String()))
		}
		ok, slack := meets(p.target, img, p.add, p.mult, p.dir, bi(1), one18)
		if slack {
			c.slack(cs, x.String(), img.String())
		}
		if !ok {
			return c.fail("bsearch_silent_wrong_input", cs, fmt.Sprintf("returned x=%s with f(x)=%s, which does not meet the tolerance around target %s on the requested side; no error reported",
				x.String(), img.String(), p.target.String()))
		}
		return nil
	}
	f := bigDecFn(p.f)
	var x om.BigDec
	var err error
	pn, msg := try(func() {
		x, err = om.BinarySearchBigDec(f, bigDec(p.lo), bigDec(p.hi), bigDec(p.target), tolOf(p), p.iter)
	})
	if pn {
		return c.fail("bsearch_panic", cs, "BinarySearchBigDec panicked: "+msg)
	}
	c.r.Traces++
	if err != nil {
		c.vac("bsearch_nonconvergence_reported")
		return nil
	}
	c.vac("bsearch_converged")
	img := f(x).BigInt()
	ok, slack := meets(p.target, img, p.add, p.mult, p.dir, one36, one36)
	if slack {
		c.slack(cs, x.String(), fmtDec(img, 36))
	}
	if !ok {
		return c.fail("bsearch_silent_wrong_input", cs, fmt.Sprintf("returned x=%s with f(x)=%s, which does not meet the tolerance around target %s on the requested side; no error reported",
			x.String(), fmtDec(img, 36), fmtDec(p.target, 36)))
	}
	return nil
}

// slack records a search whose result satisfies the multiplicative tolerance only thanks to the
// one-ulp allowance for the implementation's rounded quotient |t−a|/min(t,a) (exact ratio above the
// tolerance by less than one ulp of the quotient).  Counted, not reported.
func (c *ctx) slack(cs Case, x, img string) {
	c.r.Extra["sum_bsearch_mult_decided_by_quotient_ulp"] = incr(c.r.Extra["sum_bsearch_mult_decided_by_quotient_ulp"])
	if dumpAll {
		fmt.Fprintf(os.Stderr, "SLACK\t%s\tx=%s f(x)=%s\n", cs.sig(), x, img)
	}
}

func incr(v interface{}) int64 {
	if v == nil {
		return 1
	}
	return v.(int64) + 1
}
