package statik
